"""C14: AutonomousModeSelector - discovery (specs/SelectorDisc.tla, enumerated package layouts written to disk)
and lifecycle (specs/Selector.tla, start/periodic/disable histories)."""
import copy
import json
import os

from . import accept, generic, tlc
from .common import Outcome, parallel, run_driver, seed
from .tlc import MachineryError

DISC_INV = ["C14_FmsOnlyMattersWhenFaulty", "C14_FmsTolerates", "C14_OnlyCandidatesConstructed"]
INV = ["C14_AtMostOneEnabled", "C14_EnabledIsActive", "C14_ElapsedNonNegative", "EnabledAgrees"]
PROPS = ["C14_OnlyActive", "C14_Bracket", "C14_Selection"]


def disc_cfg(mods, classes, total):
    return ("SPECIFICATION Spec\nCONSTANTS\n  ModeNames = {\"m1\", \"m2\"}\n  MaxMods = %d\n  MaxClasses = %d\n  MaxTotal = %d\n" % (
        mods, classes, total) + "".join("INVARIANT %s\n" % i for i in DISC_INV) + "CONSTRAINT Emit\nCHECK_DEADLOCK FALSE\n")


def mc_cfg(*, dev="{}", level=10, inv=INV, props=PROPS):
    lines = ["SPECIFICATION MCSpec", "CONSTANTS", "  Dev = %s" % dev, "  MaxLevel = %d" % level,
             '  Defmodes = {"m1", "none"}', "CONSTRAINT Bound", "VIEW MCView"]
    lines += ["INVARIANT %s" % i for i in inv] + ["PROPERTY %s" % p for p in props] + ["CHECK_DEADLOCK FALSE"]
    return "\n".join(lines) + "\n"


def judge_disc(x, o):
    f = []
    if x["raises"] != o["raises"]:
        return ["raises" if x["raises"] else "raised_but_tolerable"]
    c = {(d["m"], d["c"]): d["n"] for d in o["calls"]}
    if x["raises"]:
        return []
    want = {(d["m"], d["c"]) for d in x["constructed"]}
    if set(c) != want or any(n != 1 for n in c.values()):
        f.append("constructed_once_each")
    if len(o["options"]) != x["noptions"] or "None" not in o["options"] or len(o["modes"]) != x["noptions"] - 1:
        f.append("offered")
    if not set(x["names"]) <= set(o["options"]):
        f.append("offered_by_mode_name")
    pre = [[d["m"], d["c"]] for d in x["preselected"]]
    if (not pre and o["default"] != "None") or (pre and o.get("default_cls") not in pre):
        f.append("preselected")
    return f


class SEL(generic.Desc):
    name = "Selector"
    mc_module = "MC_Selector"
    sim_module = "Sim_Selector"
    trace_module = "Trace_Selector"
    driver = "sel_driver.py"

    def tiers(self):
        return {"quick": dict(n_random=400, drivers=4, n_sim=200), "thorough": dict(n_random=20000, drivers=16, n_sim=4000)}

    def mc_runs(self, prop, tier):
        return [("lifecycle", mc_cfg(level=11 if tier == "quick" else 16), 8, "8g")]

    def teeth(self, prop):
        return [("no_clear_on_disable", mc_cfg(dev='{"no_clear_on_disable"}', level=8), {"C14_Bracket", "C14_EnabledIsActive"})]

    def probes(self, prop):
        return [(p, mc_cfg(level=9, inv=[p], props=[])) for p in ("Probe_StringWins", "Probe_NoneSelected", "Probe_SecondPeriodOtherMode",
                                                                           "Probe_DisabledMidRun", "Probe_EndWhileEnabled")]

    def sim_run(self, prop, tier, sd):
        depth = 30 if tier == "quick" else 80
        cfg = "\n".join(["SPECIFICATION SimSpec", "CONSTANTS", "  Dev = {}", "  MaxLevel = 100000", '  Defmodes = {"m1", "m2", "none"}',
                         "  SimDepth = %d" % depth, "CONSTRAINT Emit", "CONSTRAINT SimStop", "CHECK_DEADLOCK FALSE"]) + "\n"
        return cfg, "num=%d" % (30 if tier == "quick" else 500), depth + 2

    def canary(self, prop, traces):
        for t in traces:
            for i, st in enumerate(t["steps"]):
                if st["in"]["e"] == "periodic" and st["out"]["cb"]:
                    c = copy.deepcopy(t)
                    c["id"] = 999999999
                    c["steps"][i]["out"]["cb"][0]["m"] = "m2" if st["out"]["cb"][0]["m"] == "m1" else "m1"
                    c["steps"] = c["steps"][:i + 1]
                    return c
        raise MachineryError("no trace suitable for a canary")

    def nontrivial(self, prop, v, t):
        return "on_iteration" in v.get("seen", [])

    def required_tags(self, prop):
        return {"on_enable", "on_iteration", "on_disable", "string_wins", "none_selected", "chooser_selection", "periodic_idle",
                "run", "run_goes_on_after_disable", "end_while_enabled"}


def check(prop, tier):
    d = SEL()
    out = Outcome(prop, tier)
    sd = seed()
    # ---- discovery: enumerated layouts -> real packages ----
    dc = disc_cfg(2, 2, 3) if tier == "quick" else disc_cfg(2, 2, 4)   # (3, 2, 4) exceeds what TLC can build as one set
    r = tlc.run("SelectorDisc", dc, workers=1, heap="12g", timeout=14400, tag="seldisc")
    tlc.require_clean(r, "SelectorDisc")
    out.add_mc("SelectorDisc (enumerated package layouts x FMS; discovery laws)", r)
    emitted = {}
    for x in tlc.tagged(r, "S"):
        emitted[json.dumps(x["case"], sort_keys=True)] = x
    cases = list(emitted.values())
    if len(cases) < 100:
        raise MachineryError("SelectorDisc.tla emitted only %d cases" % len(cases))
    per = 2000
    chunks = [cases[i:i + per] for i in range(0, len(cases), per)]

    def one(ch):
        wd = tlc.workdir("seldrv")
        cp, op = os.path.join(wd, "cases.json"), os.path.join(wd, "out.json")
        json.dump([x["case"] for x in ch], open(cp, "w"))
        run_driver("seldisc_driver.py", ["--cases", cp, "--out", op], cwd=wd)
        res = json.load(open(op))
        if len(res) != len(ch):
            raise MachineryError("seldisc driver returned %d results for %d cases" % (len(res), len(ch)))
        return res
    results = parallel([(lambda ch=ch: one(ch)) for ch in chunks], max_workers=12)
    bad = 0
    ndisc = 0
    nfaulty = 0
    for ch, res in zip(chunks, results):
        for x, o in zip(ch, res):
            ndisc += 1
            f = judge_disc(x["exp"], o)
            if x["exp"]["raises"] or x["case"]["fms"]:
                nfaulty += 1
            if f:
                bad += 1
                if bad <= 3:
                    out.violation("package layout %s: %s: required %s, the selector did %s" % (
                        json.dumps(x["case"]), f, json.dumps(x["exp"]), json.dumps(o)[:600]),
                        {"kind": "case_mismatch", "module": "SelectorDisc", "property": prop, "case": x["case"],
                         "expected": x["exp"], "observed": o, "fails": f, "key": {"module": "SelectorDisc", "clause": f[0]}})
    # canary for the comparison
    probe = next(x for x in cases if not x["exp"]["raises"] and x["exp"]["constructed"])
    if judge_disc(probe["exp"], {"raises": False, "calls": [], "options": ["None"], "modes": [], "default": "None"}) == []:
        raise MachineryError("discovery comparison accepts a wrong observation")
    # ---- lifecycle ----
    generic.design_check(d, prop, tier, out)
    rnd, sim, sim_states = generic.gen_traces(d, prop, tier, sd)
    traces = rnd + sim
    canary = d.canary(prop, traces)
    verdicts, st = accept.accept(d.trace_module, d.trace_cfg(prop), traces + [canary], chunk=d.chunk[tier], jobs=12)
    generic.judge(d, prop, out, traces, canary, verdicts, st)
    out.cov["traces_validated_against_impl"] = len(traces) + ndisc
    out.cov["evaluations"] += ndisc
    out.cov["distinct_nontrivial"] += nfaulty
    out.cov["rule"] = ("discovery: every package layout within the bounds (modules x classes with MODE_NAME/DISABLED/DEFAULT flags, "
                       "duplicate names, failing imports, failing constructors, missing package) x FMS, written to disk and loaded by "
                       "the real selector (non-trivial: a fault is present or FMS attached); lifecycle: random and TLC-simulated "
                       "start/periodic/disable histories with dashboard-string and chooser selections over a real two-mode package "
                       "(non-trivial: the active mode received on_iteration); distinct by hash")
    out.notes["discovery_cases"] = ndisc
    out.notes["random_traces"] = len(rnd)
    out.notes["spec_behaviours_replayed_on_code"] = len(sim)
    out.assumptions += ["which of two duplicate MODE_NAMEs keeps the plain key, and which of several DEFAULT modes is preselected (FMS attached), is left open",
                        "start() is called only when no mode is active; periodic() only after a start(); wpilib's SendableChooser treats an unknown selection as no mode",
                        "the NetworkTables 'selected' entry of the chooser is set explicitly at the start of each lifecycle history (it outlives choosers inside a process)",
                        "run() periods are covered by the MagicRobot model (C05-C07)"]
    return out.finish()


def replay(path):
    rp = json.load(open(path))
    if rp.get("module") == "SelectorDisc":
        d = tlc.workdir("selreplay")
        cp, op = os.path.join(d, "cases.json"), os.path.join(d, "out.json")
        json.dump([rp["case"]], open(cp, "w"))
        run_driver("seldisc_driver.py", ["--cases", cp, "--out", op], cwd=d)
        o = json.load(open(op))[0]
        f = judge_disc(rp["expected"], o)
        print("replay: required %s observed %s -> %s" % (json.dumps(rp["expected"]), json.dumps(o)[:600], f or "agrees"))
        if f:
            print("VIOLATION property=%s replay=%s" % (rp["property"], path))
            return 1
        return 0
    return generic.replay(SEL(), path)
