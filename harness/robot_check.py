"""C05 C06 C07 C10 C11: the MagicRobot control loop against specs/MagicRobot.tla."""
import copy
import json
import os
import random

from . import accept, tlc
from .common import Outcome, log, parallel, run_driver, seed, trace_key
from .tlc import MachineryError

INVARIANTS = [
    "C05_NoExecuteInDisabledTest", "C05_ModeTopic", "C05_TodoIsSuffix",
    "C06_ExecuteOnlyWhenEnabled", "C06_SetupOnce", "C06_SetupFirst", "C06_DisabledMeansDisabled",
    "C06_EnableBeforeInit", "C07_FmsNeverCrashes", "C07_UnswallowedIsFatal",
    "C10_ResetAtIterationStart", "C11_AllPublished", "C11_EveryMode", "EnabledAgrees", "NoStuck",
]
ACTION_PROPS = ["C05_OnePerPeriod", "C07_SwallowedOnlyUnderFms", "C10_PlainUntouched"]

TEETH = {
    "C05": [("execute_in_test", "L1", {"C05_NoExecuteInDisabledTest", "C05_TodoIsSuffix"})],
    "C06": [("no_enable_on_teleop", "L1", {"C06_ExecuteOnlyWhenEnabled", "C06_EnableBeforeInit"})],
    "C07": [("robotPeriodic_unguarded", "L1", {"C07_FmsNeverCrashes"}),
            ("iterfn_unguarded", "L2", {"C07_FmsNeverCrashes"})],
    "C10": [("reset_skipped", "L3", {"C10_ResetAtIterationStart"})],
    "C11": [("feedback_skipped_in_disabled", "L1", {"C11_AllPublished", "C11_EveryMode"})],
}
PROBES = {
    "C05": [("Probe_AutoWithMode", "L2"), ("Probe_Overrun", "L1"), ("Probe_SelectOverrides", "L2"), ("Probe_SmGo", "L5"),
            ("Probe_SmReqSurvivesDisable", "L5"), ("Probe_ChooserPicked", "L6")],
    "C06": [("Probe_DirectSwitch", "L1"), ("Probe_Exited", "L1"), ("Probe_StaleDispatch", "L1"), ("Probe_EndMidIteration", "L1")],
    "C07": [("Probe_Swallow", "L1"), ("Probe_Crash", "L1")],
    "C10": [("Probe_ResetWritten", "L3")],
    "C11": [("Probe_Swallow", "L1")],
}


def nontrivial(prop, seen):
    s = set(seen)
    if prop == "C05":
        modes = {x.split("/")[0] for x in s if x.endswith("Periodic") or x.endswith("/execute")}
        return len(modes) >= 2
    if prop == "C06":
        return any(x.endswith("/on_enable") for x in s) and any(x.endswith("/on_disable") for x in s)
    if prop == "C07":
        return "swallow" in s or "fatal" in s
    if prop == "C10":
        return "write" in s and any(x.endswith("/execute") for x in s)
    if prop == "C11":
        return any(x.endswith("/feedback") for x in s)
    return False


REQUIRED_TAGS = {
    "C05": {"disabled/disabledPeriodic", "teleop/teleopPeriodic", "auto/teleopPeriodic", "test/testPeriodic",
            "auto/auto.on_iteration", "teleop/execute", "auto/execute", "overrun", "sm_go"},
    "C06": {"none/setup", "teleop/on_enable", "auto/on_enable", "disabled/on_disable", "teleop/on_disable",
            "auto/on_disable", "end", "end_from_callback"},
    "C07": {"swallow", "fatal"},
    "C10": {"write", "teleop/execute", "auto/execute"},
    "C11": {"disabled/feedback", "teleop/feedback", "auto/feedback", "test/feedback"},
}


def mc_cfg(layouts, *, dev="{}", maxiter=4, maxchg=3, maxfaults=1, fms="{TRUE, FALSE}", adv="{0}",
           toggle="FALSE", end="TRUE", invariants=INVARIANTS, props=ACTION_PROPS):
    names = "{" + ", ".join('"%s"' % s for s in layouts) + "}"
    lines = ["SPECIFICATION MCSpec", "CONSTANTS", "  Dev = %s" % dev, "  LayoutNames = %s" % names,
             "  MaxIter = %d" % maxiter, "  MaxChg = %d" % maxchg, "  MaxFaults = %d" % maxfaults,
             "  FmsChoices = %s" % fms, "  AdvChoices = %s" % adv, "  AllowFmsToggle = %s" % toggle,
             "  AllowEnd = %s" % end, "CONSTRAINT Bound", "VIEW MCView"]
    lines += ["INVARIANT %s" % i for i in invariants]
    lines += ["PROPERTY %s" % p for p in props]
    lines += ["CHECK_DEADLOCK FALSE"]
    return "\n".join(lines) + "\n"


def sim_cfg(depth):
    return "\n".join([
        "SPECIFICATION SimSpec", "CONSTANTS", "  Dev = {}", '  LayoutNames = {"L1", "L2", "L3", "L4", "L5", "L6"}',
        "  MaxIter = 1000", "  MaxChg = 10", "  MaxFaults = 2", "  FmsChoices = {TRUE, FALSE}",
        "  AdvChoices = {0, 21000}", "  AllowFmsToggle = TRUE", "  AllowEnd = TRUE",
        "  SimDepth = %d" % depth, "  Weight = 6", "CONSTRAINT Emit", "CONSTRAINT SimStop",
        "CHECK_DEADLOCK FALSE"]) + "\n"


def trace_cfg(prop, dev="{}"):
    return "\n".join(["SPECIFICATION TSpec", "CONSTANTS", "  Dev = %s" % dev, '  Prop = "%s"' % prop,
                      "CONSTRAINT Report", "CHECK_DEADLOCK FALSE"]) + "\n"


TIERS = {
    "quick": dict(n_random=480, n_sim=200, sim_depth=60, drivers=8, mc=[
        dict(layouts=["L1", "L2", "L3", "L4"], maxiter=4, maxchg=3, maxfaults=1),
        dict(layouts=["L1", "L2"], maxiter=3, maxchg=2, maxfaults=2, toggle="TRUE"),
        dict(layouts=["L5"], maxiter=4, maxchg=3, maxfaults=1),
        dict(layouts=["L6"], maxiter=4, maxchg=3, maxfaults=1),
    ], mc_workers=8),
    "thorough": dict(n_random=16000, n_sim=4000, sim_depth=120, drivers=16, mc=[
        dict(layouts=["L1", "L2", "L3", "L4"], maxiter=6, maxchg=4, maxfaults=2, adv="{0, 21000}"),
        dict(layouts=["L1", "L2", "L3", "L4"], maxiter=5, maxchg=4, maxfaults=3, toggle="TRUE"),
        dict(layouts=["L5"], maxiter=6, maxchg=4, maxfaults=2),
        dict(layouts=["L6"], maxiter=6, maxchg=4, maxfaults=2),
    ], mc_workers=16),
}


def design_check(prop, tier, out):
    p = TIERS[tier]
    jobs = []
    for k, m in enumerate(p["mc"]):
        def main_run(m=m, k=k):
            r = tlc.run("MC_MagicRobot", mc_cfg(**m), workers=p["mc_workers"], heap="12g", timeout=10800, tag="mc")
            tlc.require_clean(r, "MC_MagicRobot %s" % m)
            return ("mc%d" % k, r)
        jobs.append(main_run)
    for dev, layout, expect in TEETH[prop]:
        def teeth(dev=dev, layout=layout, expect=expect):
            r = tlc.run("MC_MagicRobot", mc_cfg([layout], dev='{"%s"}' % dev, maxiter=4, maxchg=3, maxfaults=1),
                        workers=2, heap="2g", timeout=900, tag="teeth")
            if r.violated not in expect:
                raise MachineryError("deviation %s on %s was not caught by %s (TLC said: %s)" % (
                    dev, layout, sorted(expect), r.violated or r.summary()))
            return ("teeth:%s" % dev, r)
        jobs.append(teeth)
    for probe, layout in PROBES[prop]:
        def pr(probe=probe, layout=layout):
            r = tlc.run("MC_MagicRobot", mc_cfg([layout], maxiter=4, maxchg=3, maxfaults=1, adv="{0, 21000}",
                                                invariants=[probe], props=[]),
                        workers=1, heap="2g", timeout=900, tag="probe")
            if r.violated != probe:
                raise MachineryError("probe %s on %s is unreachable" % (probe, layout))
            return ("probe:%s" % probe, r)
        jobs.append(pr)
    for name, r in parallel(jobs, max_workers=5):
        if name.startswith("mc"):
            out.add_mc("MC_MagicRobot[%s]" % name, r)
        else:
            out.notes.setdefault("teeth_and_probes", []).append({"name": name, "found": r.violated, "states": r.distinct})


def norm_layout(sh):
    sh = copy.deepcopy(sh)
    for k in ("resets", "plain"):
        for c in sh["comps"]:
            if isinstance(sh[k].get(c), list):
                sh[k][c] = {}
    return sh


def rename(job):
    """MC layouts use fixed names; NetworkTables topics persist inside a driver process, so every
    replayed behaviour gets its own component / mode / key names."""
    sfx = "_%d" % job["id"]
    sh = norm_layout(job["shape"])
    cm = {c: c + sfx for c in sh["comps"]}
    mm = {m: m + sfx for m in sh["modes"]}
    out = {
        "comps": [cm[c] for c in sh["comps"]],
        "has": {cm[c]: v for c, v in sh["has"].items()},
        "resets": {cm[c]: v for c, v in sh["resets"].items()},
        "plain": {cm[c]: v for c, v in sh["plain"].items()},
        "feedbacks": [{"o": cm.get(g["o"], g["o"]), "key": g["key"] + sfx,
                       "ty": (sh.get("fbtypes") or {}).get(g["key"], "int") if isinstance(sh.get("fbtypes"), dict) else "int"}
                      for g in sh["feedbacks"]],
        "sm": [cm[c] for c in sh.get("sm", [])],
        "teleAuto": sh["teleAuto"], "modes": [mm[m] for m in sh["modes"]],
        "defmode": mm.get(sh["defmode"], sh["defmode"]), "period": sh["period"], "rp": sh.get("rp", True),
    }
    evs = []
    for e in job["events"]:
        e = {k: v for k, v in e.items() if k != "x"}
        if e["e"] == "cb":
            e["o"] = cm.get(e["o"], mm.get(e["o"], e["o"]))
            if e.get("key"):
                e["key"] = e["key"] + sfx
            e["w"] = [{"c": cm[w["c"]], "a": w["a"], "v": w["v"]} for w in e["w"]]
            e["eng"] = [cm[c] for c in e.get("eng", [])]
        elif e["e"] == "sel":
            e["s"] = mm.get(e["s"], e["s"])
        elif e["e"] == "choose":
            e["m"] = mm.get(e["m"], e["m"])
        evs.append(e)
    return {"id": job["id"], "shape": out, "fms": job["fms"], "events": evs}


def gen_traces(tier, sd):
    p = TIERS[tier]
    nd = p["drivers"]
    per = p["n_random"] // nd
    wd = tlc.workdir("traces")

    def rnd(k):
        if per <= 250:
            path = os.path.join(wd, "r%d.json" % k)
            run_driver("robot_driver.py", ["--out", path, "--seed", sd * 1000 + k, "--n", per, "--first-id", 1 + k * per],
                       cwd=tlc.workdir("rdrv"))
            return json.load(open(path))
        # (at most 250 robots per driver process: the simulator's native libraries do not like thousands of robot
        #  objects in one process)
        out = []
        for j in range(0, per, 250):
            path = os.path.join(wd, "r%d_%d.json" % (k, j))
            run_driver("robot_driver.py", ["--out", path, "--seed", (sd * 1000 + k) * 100 + j // 250, "--n", min(250, per - j),
                                           "--first-id", 1 + k * per + j], cwd=tlc.workdir("rdrv"))
            out += json.load(open(path))
        return out

    def sim():
        r = tlc.run("Sim_MagicRobot", sim_cfg(p["sim_depth"]), workers=1, heap="2g", timeout=1800,
                    simulate="num=%d" % max(30, p["n_sim"] // 3), depth=8 * p["sim_depth"], seed=sd + 1, tag="sim")
        scripts = tlc.tagged(r, "S")
        if len(scripts) < 10:
            raise MachineryError("simulation produced %d behaviours\n%s" % (len(scripts), r.out[-2000:]))
        rng = random.Random(sd)
        # keep all distinct crash/exit scenarios first (fault enumeration), then long walks
        scripts.sort(key=lambda s: len(s["events"]))
        short = [s for s in scripts if len(s["events"]) < p["sim_depth"]]
        longs = [s for s in scripts if len(s["events"]) >= p["sim_depth"]]
        rng.shuffle(short)
        rng.shuffle(longs)
        pick = short[:p["n_sim"] // 2] + longs[:p["n_sim"] - min(len(short), p["n_sim"] // 2)]
        jobs = [rename({"id": 1000000 + i, "shape": s["shape"], "fms": s["fms"], "events": s["events"]})
                for i, s in enumerate(pick)]
        chunks = [jobs[i::4] for i in range(4)]

        def one(k, ch):
            d = tlc.workdir("sdrv")
            jp, op = os.path.join(d, "jobs.json"), os.path.join(d, "out.json")
            json.dump(ch, open(jp, "w"))
            run_driver("robot_driver.py", ["--out", op, "--scripts", jp], cwd=d)
            return json.load(open(op))
        outs = []
        for part in parallel([(lambda k=k, ch=ch: one(k, ch)) for k, ch in enumerate(chunks) if ch]):
            outs += part
        return outs, r.generated
    res = parallel([(lambda k=k: rnd(k)) for k in range(nd)] + [sim], max_workers=nd + 1)
    rnd_traces = [t for part in res[:-1] for t in part]
    sim_traces, sim_states = res[-1]
    return rnd_traces, sim_traces, sim_states


def make_canary(prop, traces):
    for t in traces:
        steps = t["steps"]
        for i, st in enumerate(steps):
            e = st["in"]
            c = None
            if prop == "C05" and e["e"] == "cb" and e["k"] == "execute":
                c = copy.deepcopy(t)
                c["steps"][i]["in"]["t"] += 1
            elif prop == "C06" and e["e"] == "cb" and e["k"] == "on_enable":
                c = copy.deepcopy(t)
                c["steps"][i]["in"]["inj"] = False
            elif prop == "C07" and e["e"] == "exit":
                c = copy.deepcopy(t)
                c["steps"][i]["in"]["crashed"] = not e["crashed"]
            elif prop == "C10" and e["e"] == "cb" and e["k"] == "execute" and t["shape"]["resets"][e["o"]]:
                c = copy.deepcopy(t)
                a = sorted(t["shape"]["resets"][e["o"]])[0]
                c["steps"][i]["in"]["vals"][e["o"]][a] += 1
            elif prop == "C11" and e["e"] == "wait" and e.get("fb") and min(e["fb"].values()) >= 0:
                c = copy.deepcopy(t)
                k = sorted(e["fb"])[0]
                c["steps"][i]["in"]["fb"][k] += 1
            if c is not None:
                c["id"] = 999999999
                c["steps"] = c["steps"][:i + 1]
                return c
    raise MachineryError("no trace suitable for a canary")


def check(prop, tier):
    out = Outcome(prop, tier, level="fault_enumeration" if prop == "C07" else "model_checking")
    sd = seed()
    design_check(prop, tier, out)
    rnd, sim, sim_states = gen_traces(tier, sd)
    traces = rnd + sim
    try:
        canary = make_canary(prop, traces)
    except MachineryError as e:
        # the recorded data offer nothing to corrupt (e.g. no lifecycle callback in any trace): on the unchanged tree a
        # machinery failure - unless the traces themselves are found wanting, which is then what gets reported
        canary = None
        no_canary = str(e)
    verdicts, st = accept.accept("Trace_MagicRobot", trace_cfg(prop), traces + ([canary] if canary else []),
                                 chunk=300 if tier == "quick" else 1000, jobs=12)
    judge(prop, out, traces, canary, verdicts, st)
    out.cov["traces_validated_against_impl"] = len(traces)
    out.notes["random_traces"] = len(rnd)
    out.notes["spec_behaviours_replayed_on_code"] = len(sim)
    out.notes["acceptor_states"] = st["states"]
    out.notes["simulation_states"] = sim_states
    out.assumptions += [
        "the HAL simulator (driver station, notifier alarms, FPGA clock) and in-process NetworkTables behave like the real ones",
        "driver-station changes are delivered while the robot thread is blocked in NotifierDelay.wait(), and the "
        "autonomous and test flags are never set together",
        "faults are injected in the callbacks C07 lists (not in setup()/createObjects())",
        "exhaustive exploration is bounded (see tlc_runs); longer histories are sampled and judged by the specification",
    ]
    return out.finish()


def judge(prop, out, traces, canary, verdicts, st):
    byid = {t["id"]: t for t in traces}
    if canary is None:
        canary_bad = "no trace suitable for a canary"
    else:
        cv = accept.final_verdict(verdicts[canary["id"]])
        canary_bad = None if cv["v"] == "MISMATCH" else "canary (corrupted observation) was not rejected: %s" % cv
    keys = set()
    counts = {"ACCEPT": 0, "MISMATCH": 0, "FOREIGN": 0, "STUCK": 0}
    events = 0
    tags = {}
    adopted = 0
    for tid, t in byid.items():
        v = accept.final_verdict(verdicts[tid])
        counts[v["v"]] += 1
        events += len(t["steps"])
        if t.get("desync") and v["v"] == "ACCEPT":
            raise MachineryError("trace %s: driver lost sync with its script but the trace was accepted: %s" % (
                tid, json.dumps(t.get("desync_where"))))
        if v["v"] == "MISMATCH":
            l = v["l"]
            obs = v.get("obs")
            summary = "trace %s step %d: clauses %s in %s: expected %s observed %s" % (
                tid, l, v["clauses"], v.get("br"), json.dumps(v.get("exp"))[:600], json.dumps(obs)[:600])
            out.violation(summary, {
                "kind": "trace_mismatch", "module": "MagicRobot", "property": prop, "verdict": v,
                "trace": {"shape": t["shape"], "fms": t["fms"], "steps": t["steps"][:l]},
                "key": {"module": "MagicRobot", "clause": sorted(v["clauses"])[0],
                        "site": (obs or {}).get("k", (obs or {}).get("e", ""))}})
        if v["v"] == "ACCEPT":
            for b in v.get("seen", []):
                tags[b] = tags.get(b, 0) + 1
            if v.get("adopted"):
                adopted += 1
            if nontrivial(prop, v.get("seen", [])):
                keys.add(trace_key(t))
    if canary_bad and not out.violations:     # (corrupting an observation that is itself wrong can make it right)
        raise MachineryError(canary_bad)
    out.cov["evaluations"] = events
    out.cov["distinct_nontrivial"] = len(keys)
    out.cov["rule"] = {
        "C05": "a history counts when it runs iterations of at least two different modes",
        "C06": "a history counts when it contains on_enable and on_disable calls",
        "C07": "a history counts when at least one callback raised (swallowed under FMS or fatal without)",
        "C10": "a history counts when a callback wrote a component attribute and components executed",
        "C11": "a history counts when feedback getters were called",
    }[prop] + "; distinct by hash of (layout, inputs); histories are random robot layouts with random mode scripts, faults and writes, plus TLC-simulated specification behaviours replayed on the real loop"
    out.notes["verdicts"] = counts
    out.notes["sites_visited_by_impl_traces"] = tags
    out.notes["traces_with_adopted_foreign_data"] = adopted
    missing = {x for x in REQUIRED_TAGS[prop] if x not in tags}
    if missing and not out.violations:
        raise MachineryError("no accepted implementation trace covered %s: the check would be vacuous" % sorted(missing))
    out.cov["samples"] = [{"shape": t["shape"], "fms": t["fms"], "steps": [s["in"] for s in t["steps"][:12]]}
                          for t in traces[:1]]


def replay(path):
    rp = json.load(open(path))
    prop = rp["property"]
    t = rp["trace"]
    d = tlc.workdir("replay")
    jp, op = os.path.join(d, "job.json"), os.path.join(d, "out.json")
    json.dump([{"id": 1, "shape": t["shape"], "fms": t["fms"], "events": [s["in"] for s in t["steps"]]}], open(jp, "w"))
    run_driver("robot_driver.py", ["--out", op, "--scripts", jp], cwd=d)
    tr = json.load(open(op))
    verdicts, st = accept.accept("Trace_MagicRobot", trace_cfg(prop), tr)
    v = accept.final_verdict(verdicts[1])
    log("replay verdict: %s" % json.dumps(v)[:1500])
    if v["v"] == "MISMATCH":
        log("VIOLATION property=%s replay=%s" % (prop, path))
        return 1
    return 0
