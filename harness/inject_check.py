"""C08: magicbot variable injection against specs/Inject.tla (enumerated robot definitions -> generated robots)."""
import json
import os

from . import tlc
from .common import Outcome, parallel, run_driver
from .tlc import MachineryError

INV = ["C08_NameFirst", "C08_PrefixSecond", "C08_CtorSeesEarlierOnly"]
QUICK = dict(attr=["none", "xA", "xInt", "privA", "xA_class", "xA_base", "peer", "inhA", "xCall"], ctor=["none", "xA", "peer"],
             rx=["missing", "A", "B", "zero", "none", "func"], rcx=["missing", "A", "none"], mode=["none", "xA", "c1", "yA"])
# about 330 000 robot definitions (TLC builds the universe as one set: it has to stay below 1 000 000 elements)
THOROUGH = dict(attr=["none", "xA", "xInt", "xStr", "yA", "privA", "xA_class", "xA_init", "xA_base", "peer", "xA_peer", "inhA", "xCall"],
                ctor=["none", "xA", "peer", "priv"],
                rx=["missing", "A", "B", "zero", "empty", "none", "list", "func"], rcx=["missing", "A", "none"],
                mode=["none", "xA", "c1", "yA"])


def cfg(u):
    s = lambda xs: "{" + ", ".join('"%s"' % x for x in xs) + "}"
    return ("SPECIFICATION Spec\nCONSTANTS\n  AttrOpts = %s\n  CtorOpts = %s\n  RobotX = %s\n  RobotCX = %s\n  ModeOpts = %s\n"
            "  ClsLvl = {TRUE, FALSE}\n" % (s(u["attr"]), s(u["ctor"]), s(u["rx"]), s(u["rcx"]), s(u["mode"]))
            + "".join("INVARIANT %s\n" % i for i in INV) + "CONSTRAINT Emit\nCHECK_DEADLOCK FALSE\n")


def judge_case(exp, o):
    if exp["ok"]:
        if not o["ok"]:
            return ["startup_failed_but_injectable"]
        f = []
        if o["attrs"] != exp["attrs"]:
            f.append("attribute_binding")
        if o["ctor"] != exp["ctor"]:
            f.append("constructor_binding")
        if o["mode"] != exp["mode"]:
            f.append("mode_binding")
        if not o["setup_ok"]:
            f.append("setup_before_injection")
        return f
    if o["ok"]:
        return ["started_with_missing_or_mistyped_dependency"]
    if o.get("error") != "MagicInjectError":
        return ["wrong_error"]
    if o.get("setup_calls", 0) != 0:
        return ["setup_ran_before_failure"]
    return []


def check(prop, tier):
    out = Outcome(prop, tier)
    u = QUICK if tier == "quick" else THOROUGH
    r = tlc.run("Inject", cfg(u), workers=1, heap="12g", timeout=14400, tag="inject")
    tlc.require_clean(r, "Inject")
    out.add_mc("Inject (enumerated universe of robot definitions; lookup laws)", r)
    emitted = {}
    for x in tlc.tagged(r, "S"):
        emitted[json.dumps(x["case"], sort_keys=True)] = x
    cases = list(emitted.values())
    for x in cases:
        for k in ("attrs", "ctor"):
            if isinstance(x["exp"].get(k), list):      # ToJson prints a function with an empty domain as []
                x["exp"][k] = {}
    if len(cases) < 100:
        raise MachineryError("Inject.tla emitted only %d cases" % len(cases))
    per = 1500
    chunks = [cases[i:i + per] for i in range(0, len(cases), per)]

    def one(ch):
        d = tlc.workdir("injdrv")
        cp, op = os.path.join(d, "cases.json"), os.path.join(d, "out.json")
        json.dump([x["case"] for x in ch], open(cp, "w"))
        run_driver("inject_driver.py", ["--cases", cp, "--out", op], cwd=d)
        res = json.load(open(op))
        if len(res) != len(ch):
            raise MachineryError("inject driver returned %d results for %d cases" % (len(res), len(ch)))
        return res
    results = parallel([(lambda ch=ch: one(ch)) for ch in chunks], max_workers=12)
    probe = next(x for x in cases if x["exp"]["ok"] and any(x["exp"]["attrs"].values()))
    wrong = json.loads(json.dumps(probe["exp"]))
    k = next(k for k, v in wrong["attrs"].items() if v)
    wrong["attrs"][k][0] = "robot.zzz"
    if judge_case(wrong, dict(probe["exp"], setup_ok=True)) == []:
        raise MachineryError("comparison accepts a wrong expectation")
    bad = 0
    ran = 0
    nontriv = 0
    kinds = {"startup_ok": 0, "startup_must_fail": 0}
    for ch, res in zip(chunks, results):
        for x, o in zip(ch, res):
            ran += 1
            kinds["startup_ok" if x["exp"]["ok"] else "startup_must_fail"] += 1
            c = x["case"]
            if any(c["comp"][k]["attrs"] or c["comp"][k]["ctor"] for k in c["order"]) or c["mode"]:
                nontriv += 1
            f = judge_case(x["exp"], o)
            if f:
                bad += 1
                if bad <= 3:
                    out.violation("robot definition %s: %s: required %s, robotInit() did %s" % (
                        json.dumps(c), f, json.dumps(x["exp"]), json.dumps(o)),
                        {"kind": "case_mismatch", "module": "Inject", "property": prop, "case": c, "expected": x["exp"],
                         "observed": o, "fails": f, "key": {"module": "Inject", "clause": f[0]}})
    out.cov["traces_validated_against_impl"] = ran
    out.cov["evaluations"] = ran
    out.cov["distinct_nontrivial"] = nontriv
    out.cov["exhaustive"] = True
    out.cov["rule"] = ("TLC enumerates robot definitions: one or two components in both declaration orders, each with an annotated-"
                       "attribute option (by name, typed A/B/int/str/generic alias, private, preset on the class / in __init__, "
                       "inherited annotation, reference to the other component) and a constructor option (robot attribute, other "
                       "component, private), robot attributes x / c1_x / c2_x each missing / instance / subclass instance / wrong "
                       "type / 0 / '' / None / list, class-level or createObjects-level, optionally an autonomous mode with an "
                       "annotated attribute; each is run through the real robotInit(); non-trivial = something is requested; all distinct")
    out.cov["samples"] = [{"case": x["case"], "required": x["exp"]} for x in (cases[1], cases[len(cases) // 2], cases[-1])]
    out.notes["cases"] = kinds
    out.assumptions += ["when start-up must fail the error class must be MagicInjectError and no setup() may have run",
                        "identity of injected falsy values (0, '') is judged by equality of the small shared objects",
                        "non-type annotations (TypeError path) and a robot attribute named like a component are outside the enumerated universe"]
    return out.finish()


def replay(path):
    """re-run the one robot definition of the replay file against the required outcome TLC computed for it"""
    rp = json.load(open(path))
    d = tlc.workdir("injreplay")
    cp, op = os.path.join(d, "cases.json"), os.path.join(d, "out.json")
    json.dump([rp["case"]], open(cp, "w"))
    run_driver("inject_driver.py", ["--cases", cp, "--out", op], cwd=d)
    o = json.load(open(op))[0]
    f = judge_case(rp["expected"], o)
    print("replay: required %s observed %s -> %s" % (json.dumps(rp["expected"]), json.dumps(o), f or "agrees"))
    if f:
        print("VIOLATION property=%s replay=%s" % (rp["property"], path))
        return 1
    return 0
