"""C16: robotpy_ext.misc.NotifierDelay against specs/NotifierDelay.tla."""
import copy

from . import generic
from .tlc import MachineryError

INV = ["C16_OnGrid", "C16_NotEarly", "C16_FreeReleases", "EnabledAgrees"]
PROPS = ["C16_ExactWhenOnTime", "C16_WaitAfterFreeImmediate"]


def mc_cfg(*, dev="{}", periods="{4000}", bodies="{0, 3999, 4000, 4001, 13007}", waits=5,
           inv=INV, props=PROPS):
    lines = ["SPECIFICATION MCSpec", "CONSTANTS", "  Dev = %s" % dev, "  Periods = %s" % periods, "  Bodies = %s" % bodies,
             "  MaxWaits = %d" % waits, "CONSTRAINT Bound"]
    lines += ["INVARIANT %s" % i for i in inv] + ["PROPERTY %s" % p for p in props] + ["CHECK_DEADLOCK FALSE"]
    return "\n".join(lines) + "\n"


class ND(generic.Desc):
    name = "NotifierDelay"
    mc_module = "MC_NotifierDelay"
    sim_module = "Sim_NotifierDelay"
    trace_module = "Trace_NotifierDelay"
    driver = "nd_driver.py"
    rule = ("a trace is one NotifierDelay (period 1 ms .. 2 s, int or float seconds; every fifth with an application clock installed through RobotController.setTimeSource) with a schedule of loop-body durations (shorter than, equal "
            "to, just over and several times the period) and wait()/free() calls; non-trivial when at least one wait() "
            "found its alarm already past (overrun); distinct by hash of the schedule")
    assumptions = ["the HAL simulator's notifier alarms and FPGA clock behave like the real ones; the wrapper around "
                   "hal.waitForNotifierAlarm advances simulated time to the armed alarm (getNextNotifierTimeout) before blocking"]

    def tiers(self):
        return {"quick": dict(n_random=600, drivers=2, n_sim=200), "thorough": dict(n_random=40000, drivers=8, n_sim=4000)}

    def mc_runs(self, prop, tier):
        if tier == "quick":
            return [("P=4000, 4 waits", mc_cfg(waits=4), 8, "4g")]
        return [("P in {4000,5000}, 6 waits", mc_cfg(periods="{4000, 5000}", bodies="{0, 1000, 3999, 4000, 4001, 5000, 13007}", waits=6), 16, "16g")]

    def teeth(self, prop):
        return [("drift", mc_cfg(dev='{"drift"}', waits=4), {"C16_OnGrid", "C16_ExactWhenOnTime", "C16_NotEarly"})]

    def probes(self, prop):
        return [(p, mc_cfg(waits=4, inv=[p], props=[])) for p in ("Probe_Overrun", "Probe_CatchUp", "Probe_Freed")]

    def sim_run(self, prop, tier, sd):
        depth = 24 if tier == "quick" else 60
        cfg = "\n".join(["SPECIFICATION SimSpec", "CONSTANTS", "  Dev = {}", "  Periods = {1000, 5000, 20000}",
                         "  Bodies = {0, 1, 999, 1000, 1001, 4999, 5001, 20000, 61007}", "  MaxWaits = 100000",
                         "  SimDepth = %d" % depth, "CONSTRAINT Emit", "CONSTRAINT SimStop", "CHECK_DEADLOCK FALSE"]) + "\n"
        return cfg, "num=%d" % (30 if tier == "quick" else 600), depth + 2

    def canary(self, prop, traces):
        for t in traces:
            for i, st in enumerate(t["steps"]):
                if st["in"]["e"] == "wait":
                    c = copy.deepcopy(t)
                    c["id"] = 999999999
                    c["steps"][i]["out"]["t"] += 1
                    c["steps"] = c["steps"][:i + 1]
                    return c
        raise MachineryError("no trace suitable for a canary")

    def nontrivial(self, prop, v, t):
        return "overrun" in v.get("seen", [])

    def required_tags(self, prop):
        return {"new", "body", "wait", "free", "overrun", "wait_after_free"}


def apalache_induction():
    """Unbounded model-level argument: IndInv (alarm on the grid, k-th wait not before t0+k*P) is inductive for any
    period 1..100 ms, any body <= 10 s, any number of waits.  An extra: if Apalache cannot be run the check goes on."""
    import os
    import shutil
    import subprocess
    from . import tlc
    if shutil.which("apalache-mc") is None:
        return {"ran": False, "why": "apalache-mc not on PATH"}
    wd = tlc.workdir("apalache")
    for n in ("NotifierDelayCore.tla", "ND_Ind.tla"):
        shutil.copy(os.path.join(tlc.SPECS, n), wd)
    res = {"ran": True}

    def run(init, length, cinit="ConstInit"):
        p = subprocess.run(["apalache-mc", "check", "--cinit=" + cinit, "--init=" + init, "--next=INext", "--inv=IndInv",
                            "--length=%d" % length, "--out-dir=" + os.path.join(wd, "out"), "ND_Ind.tla"],
                           cwd=wd, stdout=subprocess.PIPE, stderr=subprocess.STDOUT, text=True, timeout=900)
        return "EXITCODE: OK" in p.stdout, p.stdout[-600:]
    try:
        ok0, o0 = run("Init", 0)
        ok1, o1 = run("IndInit", 1)
    except Exception as e:  # noqa
        return {"ran": False, "why": "apalache failed to run: %s" % e}
    res["init_implies_inv"] = ok0
    res["inv_is_inductive"] = ok1
    if not (ok0 and ok1):
        if "error" in (o0 + o1).lower() and "counterexample" not in (o0 + o1).lower() and "violat" not in (o0 + o1).lower():
            return {"ran": False, "why": "apalache error", "tail": (o0 + o1)[-400:]}
        raise MachineryError("Apalache: the inductive invariant of NotifierDelay does not hold\n%s\n%s" % (o0, o1))
    return res


def check(prop, tier):
    import concurrent.futures as cf
    with cf.ThreadPoolExecutor(max_workers=1) as ex:
        fut = ex.submit(apalache_induction)

        class WithApalache(ND):
            def extras(self, prop, tier, out):
                out.notes["apalache_inductive_invariant"] = fut.result(timeout=1500)
        return generic.run_check(WithApalache(), prop, tier)


def replay(path):
    return generic.replay(ND(), path)
