"""Shared pieces of the checks: subprocess pools, verdicts, evidence, replay files, known findings."""
import concurrent.futures as cf
import hashlib
import json
import os
import subprocess
import sys
import time

from . import tlc
from .tlc import MachineryError, VERIF

PY = "/venv/bin/python"
REPO = os.environ.get("VERIF_REPO", "/repo")
EVIDENCE = os.path.join(VERIF, "evidence")
REPLAYS = os.path.join(VERIF, "replays")
KNOWN = os.path.join(VERIF, "known_findings.json")
DRIVERS = os.path.join(VERIF, "harness", "drivers")


def seed():
    try:
        return int(os.environ.get("VERIF_SEED", "0"))
    except ValueError:
        return 0


def log(*a):
    print(*a, flush=True)


def run_driver(script, args, *, timeout=900, cwd=None, env=None):
    """Run one driver subprocess under /venv/bin/python against VERIF_REPO."""
    e = dict(os.environ)
    e["VERIF_REPO"] = REPO
    e["PYTHONPATH"] = REPO + (":" + e["PYTHONPATH"] if e.get("PYTHONPATH") else "")
    e["PYTHONHASHSEED"] = "0"
    e["PYTHONDONTWRITEBYTECODE"] = "1"
    if env:
        e.update(env)
    wd = cwd or tlc.workdir("drv")
    for attempt in range(3):
        p = subprocess.run([PY, os.path.join(DRIVERS, script)] + [str(a) for a in args], cwd=wd, env=e,
                           stdout=subprocess.PIPE, stderr=subprocess.PIPE, timeout=timeout, text=True,
                           errors="replace")
        # killed by a signal (a crash inside the simulator's native libraries - the code under test is pure Python):
        # the same deterministic run is tried again
        if p.returncode >= 0:
            break
        log("driver %s died with signal %d (attempt %d)" % (script, -p.returncode, attempt + 1))
    if p.returncode != 0:
        raise MachineryError("driver %s %s failed (rc=%s)\n%s\n%s" % (
            script, args, p.returncode, p.stdout[-3000:], p.stderr[-6000:]))
    return p


def parallel(fns, max_workers=16):
    """Run thunks concurrently (they spawn subprocesses); results in order; first exception re-raised."""
    with cf.ThreadPoolExecutor(max_workers=max_workers) as ex:
        futs = [ex.submit(f) for f in fns]
        return [f.result() for f in futs]


def trace_key(t):
    h = hashlib.sha256()
    h.update(json.dumps(t.get("shape"), sort_keys=True).encode())
    h.update(json.dumps(t.get("extra"), sort_keys=True).encode())
    h.update(json.dumps([s["in"] for s in t["steps"]], sort_keys=True).encode())
    return h.hexdigest()[:16]


def load_known():
    if not os.path.exists(KNOWN):
        return {"findings": []}
    return json.load(open(KNOWN))


class Outcome:
    """Accumulates what a check saw and turns it into exit code, VIOLATION lines and evidence."""

    def __init__(self, prop, tier, level="model_checking"):
        self.prop = prop
        self.tier = tier
        self.level = level
        self.t0 = time.time()
        self.violations = []      # (summary, replay dict)
        self.known_hits = {}      # finding id -> count
        self.cov = {"states": 0, "transitions": 0, "traces_validated_against_impl": 0,
                    "evaluations": 0, "distinct_nontrivial": 0, "samples": []}
        self.assumptions = []
        self.notes = {}

    def add_mc(self, name, r):
        self.cov["states"] += r.distinct
        self.cov["transitions"] += r.generated
        self.notes.setdefault("tlc_runs", []).append(dict(r.summary(), name=name))

    def violation(self, summary, replay):
        self.violations.append((summary, replay))

    def finish(self):
        # X..: coverage beyond the listed properties (not in MANIFEST.json): own evidence directory, own alarm word
        extra = self.prop.startswith("X")
        evdir = os.path.join(VERIF, "extras", "evidence") if extra else EVIDENCE
        os.makedirs(evdir, exist_ok=True)
        wall = time.time() - self.t0
        known = load_known()
        rc = 0
        out_lines = []
        fresh = []
        for summary, replay in self.violations:
            k = _matches_known(self.prop, replay, known)
            if k is not None:
                self.known_hits[k["id"]] = self.known_hits.get(k["id"], 0) + 1
            else:
                fresh.append((summary, replay))
        for f in known.get("findings", []):
            if f.get("status") == "open" and self.prop in [f.get("property")] + f.get("also", []):
                out_lines.append("KNOWN-FINDING: property=%s %s" % (self.prop, f["summary"]))
        seen_paths = set()
        for summary, replay in fresh[:5]:
            os.makedirs(REPLAYS, exist_ok=True)
            blob = json.dumps(replay, sort_keys=True)
            path = os.path.join(REPLAYS, "%s-%s.json" % (self.prop, hashlib.sha256(blob.encode()).hexdigest()[:12]))
            if path in seen_paths:
                continue
            seen_paths.add(path)
            with open(path, "w") as f:
                f.write(blob)
            out_lines.append(("DIVERGENCE extra=%s replay=%s" if extra else "VIOLATION property=%s replay=%s") % (self.prop, path))
            out_lines.append("  " + summary)
            rc = 1
        ev = {
            "property_id": self.prop, "tier": self.tier, "seed": seed(), "level": self.level,
            "coverage": self.cov, "assumptions": self.assumptions, "wall_s": round(wall, 2),
            "violations": len(fresh),
        }
        ev["coverage"].update(self.notes)
        if self.known_hits:
            ev["coverage"]["known_findings_hit"] = self.known_hits
        if not ev["coverage"]["samples"]:
            ev["coverage"]["samples"] = ["(no sample recorded)"]
        with open(os.path.join(evdir, self.prop + ".json"), "w") as f:
            json.dump(ev, f, indent=1, sort_keys=True)
        for ln in out_lines:
            log(ln)
        log("%s %s: %s in %.1fs (states=%d, traces=%d, nontrivial=%d)" % (
            self.prop, self.tier, "VIOLATION" if rc else "held", wall, self.cov["states"],
            self.cov["traces_validated_against_impl"], self.cov["distinct_nontrivial"]))
        return rc


def _matches_known(prop, replay, known):
    for f in known.get("findings", []):
        if f.get("status") != "open" or prop not in [f.get("property")] + f.get("also", []):
            continue
        key = f.get("key", {})
        if all(replay.get("key", {}).get(k) == v for k, v in key.items()):
            return f
    return None
