"""Batch trace acceptance with TLC: one TLC process per chunk of traces, verdicts parsed from PrintT."""
import json
import os

from . import tlc
from .common import parallel
from .tlc import MachineryError


def accept(module, cfg_text, traces, *, chunk=300, jobs=8, env=None, timeout=1800, heap="2g"):
    """Validate traces (list of dicts with unique 'id') against specs/<module>.tla.

    Returns (verdicts, stats): verdicts maps trace id -> list of verdict records (a FOREIGN verdict
    may be followed by a late MISMATCH from a monitor); stats has TLC state counts.
    """
    if not traces:
        return {}, {"states": 0, "transitions": 0, "wall": 0.0}
    chunks = [traces[i:i + chunk] for i in range(0, len(traces), chunk)]

    def one(ch, k):
        wd = tlc.workdir("acc")
        path = os.path.join(wd, "batch.json")
        with open(path, "w") as f:
            json.dump(ch, f)
        e = {"TRACE_FILE": path}
        if env:
            e.update(env)
        r = tlc.run(module, cfg_text, env=e, workers=1, timeout=timeout, heap=heap, tag="acc%d" % k)
        os.remove(path)
        if r.timed_out:
            raise MachineryError("acceptor %s timed out" % module)
        if r.violated and r.violation_kind in ("invariant", "action_property"):
            # a property invariant is false on an implementation trace: reported by the caller
            pass
        elif not r.ok:
            raise MachineryError("acceptor %s failed:\n%s" % (module, "\n".join(r.out.splitlines()[-30:])))
        return r

    results = parallel([(lambda ch=ch, k=k: one(ch, k)) for k, ch in enumerate(chunks)], max_workers=jobs)
    verdicts = {}
    stats = {"states": 0, "transitions": 0, "wall": 0.0, "invariant_violations": []}
    for r, ch in zip(results, chunks):
        stats["states"] += r.distinct
        stats["transitions"] += r.generated
        stats["wall"] += r.wall
        for v in tlc.tagged(r, "V"):
            verdicts.setdefault(v["tid"], []).append(v)
        if r.violated:
            stats["invariant_violations"].append({"name": r.violated, "trace": ["\n".join(s) for s in r.trace[-3:]]})
        else:
            missing = [t for t in ch if t["id"] not in verdicts]
            if missing:
                # a verdict line can be lost when TLC's own progress output lands in the middle of it (long batches on a
                # loaded machine): those traces are judged again, by themselves
                r2 = one(missing, 9000 + len(missing))
                for v in tlc.tagged(r2, "V"):
                    verdicts.setdefault(v["tid"], []).append(v)
                if r2.violated:
                    stats["invariant_violations"].append({"name": r2.violated, "trace": ["\n".join(s) for s in r2.trace[-3:]]})
                else:
                    for t in missing:
                        if t["id"] not in verdicts:
                            raise MachineryError("acceptor %s: trace %s got no verdict" % (module, t["id"]))
    return verdicts, stats


def final_verdict(vs):
    """The most severe verdict of a trace."""
    order = {"STUCK": 4, "MISMATCH": 3, "FOREIGN": 2, "ACCEPT": 1}
    return max(vs, key=lambda v: order.get(v["v"], 0))
