"""Apalache as an extra engine: inductive invariants of small integer specifications (unbounded, model level).
If Apalache cannot be run the check goes on without it; if it refutes the invariant the check exits 2 (the model
is wrong, nothing was learnt about the code)."""
import os
import shutil
import subprocess

from . import tlc
from .tlc import MachineryError


def induction(module, files, *, init="Init", indinit="IndInit", inv="IndInv", next_=None, cinit=None, teeth=None, timeout=900):
    """teeth: (text to replace, replacement) - the mutated module must be refuted, otherwise the invariant proves nothing."""
    if shutil.which("apalache-mc") is None:
        return {"ran": False, "why": "apalache-mc not on PATH"}
    wd = tlc.workdir("apalache")
    for n in files:
        shutil.copy(os.path.join(tlc.SPECS, n), wd)

    def run(mod, i, length):
        cmd = ["apalache-mc", "check", "--init=" + i, "--inv=" + inv, "--length=%d" % length,
               "--out-dir=" + os.path.join(wd, "out")]
        if next_:
            cmd.append("--next=" + next_)
        if cinit:
            cmd.append("--cinit=" + cinit)
        p = subprocess.run(cmd + [mod + ".tla"], cwd=wd, stdout=subprocess.PIPE, stderr=subprocess.STDOUT, text=True,
                           timeout=timeout)
        return "EXITCODE: OK" in p.stdout, p.stdout[-600:]
    try:
        ok0, o0 = run(module, init, 0)
        ok1, o1 = run(module, indinit, 1)
        res = {"ran": True, "module": module, "init_implies_inv": ok0, "inv_is_inductive": ok1}
        if teeth and ok0 and ok1:
            src = open(os.path.join(wd, module + ".tla")).read()
            if teeth[0] not in src:
                raise MachineryError("apalache teeth: text to mutate not found in %s" % module)
            bad = module + "Bad"
            open(os.path.join(wd, bad + ".tla"), "w").write(
                src.replace(teeth[0], teeth[1]).replace("MODULE %s " % module, "MODULE %s " % bad))
            okb, ob = run(bad, indinit, 1)
            res["mutated_model_refuted"] = not okb
            if okb:
                raise MachineryError("Apalache accepts a mutated model of %s: the invariant has no teeth" % module)
    except MachineryError:
        raise
    except Exception as e:  # noqa
        return {"ran": False, "why": "apalache failed to run: %s" % e}
    if not (ok0 and ok1):
        txt = (o0 + o1).lower()
        if "error" in txt and "counterexample" not in txt and "violat" not in txt and "found an error" not in txt:
            return {"ran": False, "why": "apalache error", "tail": (o0 + o1)[-400:]}
        raise MachineryError("Apalache: the inductive invariant of %s does not hold\n%s\n%s" % (module, o0, o1))
    return res
