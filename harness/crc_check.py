"""C20: robotpy_ext.misc.crc7 against specs/Crc7.tla, Crc7Lin.tla, Crc7Bits.tla."""
import copy
import json
import os

from . import accept, tlc
from .common import Outcome, parallel, run_driver, seed, trace_key
from .tlc import MachineryError

CFG_PAIRED = """SPECIFICATION Spec
INVARIANT Refines
INVARIANT InRange
CHECK_DEADLOCK FALSE
"""
CFG_LIN = """SPECIFICATION LSpec
INVARIANT Linear
CHECK_DEADLOCK FALSE
"""
CFG_BITS = """SPECIFICATION BSpec
INVARIANT DetectsBursts
INVARIANT DetectsDoubleBelow127
INVARIANT PeriodIs127
CHECK_DEADLOCK FALSE
"""
CFG_TRACE = """SPECIFICATION TSpec
CONSTANTS
  Prop = "C20"
CONSTRAINT Report
CHECK_DEADLOCK FALSE
"""


def check(prop, tier):
    out = Outcome(prop, tier)
    sd = seed()
    wd = tlc.workdir("crc")
    table = os.path.join(wd, "table.json")
    run_driver("crc_driver.py", ["--table", table], cwd=wd)
    env = {"CRC_TABLE": table}
    tab = json.load(open(table))

    def paired():
        return "paired", tlc.run("Crc7", CFG_PAIRED, env=env, workers=4, heap="2g", timeout=1800, tag="crc")

    def lin():
        return "linear", tlc.run("Crc7Lin", CFG_LIN, env=env, workers=8, heap="4g", timeout=3600, tag="crclin")

    def bits():
        return "bits", tlc.run("Crc7Bits", CFG_BITS, workers=1, heap="1g", timeout=600, tag="crcbits")

    def teeth():
        # a table with one flipped bit in one entry must be rejected by the ASSUMEs / Refines
        bad = list(tab)
        bad[(17 + sd) % 256] ^= 1 << (sd % 7)
        p = os.path.join(wd, "bad.json")
        json.dump(bad, open(p, "w"))
        r = tlc.run("Crc7", CFG_PAIRED, env={"CRC_TABLE": p}, workers=1, heap="1g", timeout=600, tag="crcbad")
        if r.ok:
            raise MachineryError("a corrupted table was accepted by the Crc7 model")
        return "teeth", r
    jobs = [paired, bits, teeth] + ([lin] if tier == "thorough" else [])
    res = dict(parallel(jobs))
    viol = []
    for name in ("paired", "bits", "linear"):
        if name not in res:
            continue
        r = res[name]
        out.add_mc("Crc7:" + name, r)
        if r.timed_out:
            raise MachineryError("Crc7 %s timed out" % name)
        if not r.ok:
            # the table is the implementation: a false ASSUME / invariant here is a property violation;
            # anything else TLC complains about is a machinery failure
            false_assume = [ln for ln in r.out.splitlines() if "Assumption" in ln and "is false" in ln]
            if not r.violated and not false_assume:
                raise MachineryError("Crc7 %s run failed:\n%s" % (name, "\n".join(r.out.splitlines()[-25:])))
            what = r.violated or ("ASSUME " + " ".join(false_assume[:2]))
            tail = [ln for ln in r.out.splitlines() if "Assumption" in ln or "Error" in ln][:5]
            viol.append((name, what, tail))
    for name, what, tail in viol:
        out.violation("the table in robotpy_ext/misc/crc7.py fails the %s check: %s %s" % (name, what, tail),
                      {"kind": "model_on_code_table", "module": "Crc7", "property": prop, "check": name, "what": what,
                       "tlc": tail, "table": tab, "key": {"module": "Crc7", "clause": name}})
    # conformance: the real crc7() on every one-byte message, one two-byte message per transition of the
    # paired machine, and random messages (bytes and lists), running checksum compared prefix by prefix
    def drv(mode, first, n=0):
        p = os.path.join(tlc.workdir("crcdrv"), "o.json")
        run_driver("crc_driver.py", ["--out", p, "--mode", mode, "--seed", sd, "--n", n, "--first-id", first])
        return json.load(open(p))
    parts = parallel([lambda: drv("all1", 1), lambda: drv("pairs", 1000), lambda: drv("long", 90000), lambda: drv("inplace", 95000), lambda: drv("all2", 2000000), lambda: drv("suffix", 98000),
                      lambda: drv("random", 100000, 500 if tier == "quick" else 20000)])
    traces = [t for p in parts for t in p]
    canary = copy.deepcopy(traces[300])
    canary["id"] = 999999999
    canary["steps"][-1]["out"]["c"] ^= 1
    verdicts, st = accept.accept("Trace_Crc7", CFG_TRACE, traces + [canary], chunk=6000, jobs=8, env=env)
    canary_bad = accept.final_verdict(verdicts[canary["id"]])["v"] != "MISMATCH"
    keys = set()
    nev = 0
    bad = 0
    for t in traces:
        v = accept.final_verdict(verdicts[t["id"]])
        nev += len(t["steps"])
        if v["v"] == "MISMATCH":
            bad += 1
            if bad <= 3:
                msg = [s["in"].get("b", "<empty>") for s in t["steps"]]
                out.violation("crc7(%s) prefix %d: expected %s observed %s" % (msg, v["l"], v["exp"], v["obs"]),
                              {"kind": "trace_mismatch", "module": "Crc7", "property": prop, "verdict": v,
                               "trace": {"shape": {}, "steps": t["steps"][:v["l"]]},
                               "key": {"module": "Crc7", "clause": "csum"}})
        elif len(t["steps"]) >= 2:
            keys.add(trace_key(t))
    if canary_bad and not out.violations:
        raise MachineryError("crc canary was not rejected")
    out.cov["traces_validated_against_impl"] = len(traces)
    out.cov["evaluations"] = nev
    out.cov["distinct_nontrivial"] = len(keys)
    out.cov["exhaustive"] = not viol
    out.cov["rule"] = ("model: every (checksum, byte) transition of the paired table/bit-serial machine (finite, hence every message "
                       "of every length); conformance: all 256 one-byte messages, one two-byte message per model transition "
                       "(128 x 256), all 65536 two-byte messages as bytes/bytearray, messages ending in text-frame / padding suffixes, random messages up to 64 bytes in eight container kinds; non-trivial = at least two bytes; "
                       "distinct by hash of the message")
    out.cov["samples"] = [{"message": [s["in"].get("b", "<empty>") for s in t["steps"]], "running_crc": [s["out"]["c"] for s in t["steps"]]}
                          for t in (traces[5], traces[700], traces[-1])]
    out.notes["acceptor_states"] = st["states"]
    out.assumptions += ["the lookup table is read from the imported module (robotpy_ext.misc.crc7._crc7_table) and is the object "
                        "TLC reasons about; the two-line loop around it is covered by conformance only",
                        "XOR-linearity over equal-length messages follows from the checked table linearity by induction over the "
                        "length (explored directly in the thorough tier, module Crc7Lin)"]
    return out.finish()


def replay(path):
    rp = json.load(open(path))
    if rp.get("kind") == "model_on_code_table":
        return check(rp["property"], "quick")
    msg = [s["in"]["b"] for s in rp["trace"]["steps"] if s["in"].get("e", "byte") == "byte"]
    wd = tlc.workdir("crc")
    table = os.path.join(wd, "table.json")
    run_driver("crc_driver.py", ["--table", table], cwd=wd)
    jp, op = os.path.join(wd, "j.json"), os.path.join(wd, "o.json")
    json.dump([{"id": 1, "events": [{"b": b} for b in msg]}], open(jp, "w"))
    run_driver("crc_driver.py", ["--out", op, "--scripts", jp], cwd=wd)
    verdicts, st = accept.accept("Trace_Crc7", CFG_TRACE, json.load(open(op)), env={"CRC_TABLE": table})
    v = accept.final_verdict(verdicts[1])
    print("replay verdict: %s" % json.dumps(v))
    if v["v"] == "MISMATCH":
        print("VIOLATION property=%s replay=%s" % (rp["property"], path))
        return 1
    return 0
