"""Run TLC and parse what it says.  Standard library only."""
import json
import os
import re
import shutil
import subprocess
import time

VERIF = os.path.dirname(os.path.dirname(os.path.abspath(__file__)))
SPECS = os.path.join(VERIF, "specs")
JAR = "/opt/veriftools/tla/tla2tools.jar"
DEPS = "/opt/veriftools/tla/CommunityModules-deps.jar"
WORKROOT = os.path.join(VERIF, ".work")


class MachineryError(Exception):
    """Something in the verification machinery (not the code under test) failed -> exit 2."""


_counter = [0]


def workdir(tag="w"):
    _counter[0] += 1
    d = os.path.join(WORKROOT, "%d-%s-%d" % (os.getpid(), tag, _counter[0]))
    os.makedirs(d, exist_ok=True)
    return d


def cleanup():
    if os.path.isdir(WORKROOT):
        for n in os.listdir(WORKROOT):
            if n.startswith("%d-" % os.getpid()):
                shutil.rmtree(os.path.join(WORKROOT, n), ignore_errors=True)


class TLCResult:
    def __init__(self):
        self.rc = None
        self.out = ""
        self.generated = 0
        self.distinct = 0
        self.depth = 0
        self.ok = False            # "No error has been found"
        self.violated = None       # invariant / property name
        self.violation_kind = None  # invariant | action_property | temporal | deadlock | assume | eval_error
        self.errors = []
        self.prints = []           # decoded PrintT strings
        self.trace = []            # counterexample states (raw text)
        self.coverage = {}         # action name -> (distinct, total)
        self.wall = 0.0
        self.timed_out = False

    def summary(self):
        return {
            "ok": self.ok, "violated": self.violated, "kind": self.violation_kind,
            "generated": self.generated, "distinct": self.distinct, "depth": self.depth,
            "wall_s": round(self.wall, 2),
        }


_re_counts = re.compile(r"^(\d+) states generated, (\d+) distinct states found")
_re_depth = re.compile(r"The depth of the complete state graph search is (\d+)")
_re_inv = re.compile(r"Error: Invariant (\S+) is violated")
_re_act = re.compile(r"Error: Action property (\S+) is violated")
_re_cov = re.compile(r"^<(\w+) line \d+, col \d+ to line \d+, col \d+ of module (\w+)>: (\d+):(\d+)")


def run(module, cfg_text, *, env=None, workers=16, timeout=600, heap="4g", simulate=None,
        depth=None, seed=None, coverage=False, extra=(), tag=None, keep=False, deque=False):
    """Run TLC on specs/<module>.tla with the given configuration text.

    All of specs/*.tla is copied into a private work directory (TLC writes its state files next
    to the spec).  Returns a TLCResult; raises MachineryError when TLC itself failed to run.
    """
    wd = workdir(tag or module)
    for n in os.listdir(SPECS):
        if n.endswith(".tla"):
            shutil.copy(os.path.join(SPECS, n), os.path.join(wd, n))
    with open(os.path.join(wd, module + ".cfg"), "w") as f:
        f.write(cfg_text)
    cmd = ["java", "-Xmx" + heap, "-XX:+UseParallelGC"]
    if deque:
        cmd.append("-Dtlc2.tool.queue.IStateQueue=StateDeque")
    cmd += ["-cp", JAR + ":" + DEPS, "tlc2.TLC", "-workers", str(workers), "-metadir",
            os.path.join(wd, "states"), "-noGenerateSpecTE"]
    if coverage:
        cmd += ["-coverage", "1"]
    if simulate is not None:
        cmd += ["-simulate", simulate]
        if depth is not None:
            cmd += ["-depth", str(depth)]
    if seed is not None:
        cmd += ["-seed", str(seed)]
    cmd += list(extra)
    cmd += ["-config", module + ".cfg", module + ".tla"]
    e = dict(os.environ)
    e.pop("JAVA_TOOL_OPTIONS", None)
    if env:
        e.update({k: str(v) for k, v in env.items()})
    r = TLCResult()
    t0 = time.time()
    try:
        p = subprocess.run(cmd, cwd=wd, env=e, stdout=subprocess.PIPE, stderr=subprocess.STDOUT,
                           timeout=timeout, text=True, errors="replace")
        r.rc = p.returncode
        r.out = p.stdout
    except subprocess.TimeoutExpired as ex:
        r.timed_out = True
        r.out = (ex.stdout or b"").decode("utf8", "replace") if isinstance(ex.stdout, bytes) else (ex.stdout or "")
        subprocess.run(["pkill", "-f", wd], check=False)
    r.wall = time.time() - t0
    _parse(r)
    if not keep:
        shutil.rmtree(wd, ignore_errors=True)
    else:
        r.workdir = wd
    return r


def _parse(r):
    lines = r.out.splitlines()
    in_trace = False
    cur = None
    for ln in lines:
        m = _re_counts.match(ln)
        if m:
            r.generated, r.distinct = int(m.group(1)), int(m.group(2))
        m = _re_depth.search(ln)
        if m:
            r.depth = int(m.group(1))
        if "Model checking completed. No error has been found." in ln:
            r.ok = True
        m = _re_inv.search(ln)
        if m:
            r.violated, r.violation_kind = m.group(1), "invariant"
        m = _re_act.search(ln)
        if m:
            r.violated, r.violation_kind = m.group(1), "action_property"
        if "Error: Deadlock reached" in ln:
            r.violated, r.violation_kind = "Deadlock", "deadlock"
        if "Temporal properties were violated" in ln:
            r.violated, r.violation_kind = r.violated or "temporal", "temporal"
        if ln.startswith("Error:") and r.violated is None:
            r.errors.append(ln)
        if ln.startswith('"') and ln.endswith('"'):
            try:
                r.prints.append(json.loads(ln))
            except ValueError:
                try:
                    r.prints.append(_tla_unquote(ln))
                except Exception:
                    pass
        if "violated by the initial state" in ln:
            in_trace = True
            cur = [ln]
            r.trace.append(cur)
        elif ln.startswith("State ") and ":" in ln:
            in_trace = True
            cur = [ln]
            r.trace.append(cur)
        elif in_trace and cur is not None:
            if ln.strip() == "":
                cur = None
            else:
                cur.append(ln)
        m = _re_cov.match(ln)
        if m:
            r.coverage[m.group(1)] = (int(m.group(3)), int(m.group(4)))
    if r.simulate_stats():
        pass


def _tla_unquote(s):
    s = s[1:-1]
    out = []
    i = 0
    while i < len(s):
        c = s[i]
        if c == "\\" and i + 1 < len(s):
            n = s[i + 1]
            out.append({"n": "\n", "t": "\t", '"': '"', "\\": "\\"}.get(n, n))
            i += 2
        else:
            out.append(c)
            i += 1
    return "".join(out)


def _sim_stats(self):
    m = re.search(r"The number of states generated: (\d+)", self.out)
    if m:
        self.generated = int(m.group(1))
        return True
    return False


TLCResult.simulate_stats = _sim_stats


def tagged(result, prefix):
    """JSON payloads of PrintT("<prefix>|" \\o ToJson(x)) lines."""
    out = []
    p = prefix + "|"
    for s in result.prints:
        if isinstance(s, str) and s.startswith(p):
            out.append(json.loads(s[len(p):]))
    return out


def require_clean(r, what):
    """TLC ran to completion without complaint, else a machinery failure."""
    if r.timed_out:
        raise MachineryError("%s: TLC timed out after %.0fs" % (what, r.wall))
    if not r.ok:
        tail = "\n".join(r.out.splitlines()[-40:])
        raise MachineryError("%s: TLC did not finish cleanly (violated=%s)\n%s" % (what, r.violated, tail))
