"""Coverage of the library beyond the twenty listed properties.  X01: robotpy_ext.misc.looptimer.LoopTimer against
specs/LoopTimer.tla.  Not part of MANIFEST.json; evidence goes to extras/ ; a disagreement is printed as
"DIVERGENCE extra=X01 replay=<path>" (exit 1)."""
import copy

from . import generic
from .tlc import MachineryError

INV = ["LT_LoopsCounted", "LT_ReportConsistent", "LT_AtMostOnePerSecond", "EnabledAgrees"]
PROPS = ["LT_Due"]


def mc_cfg(*, dev="{}", steps="{0, 1, 31, 64, 70, 130}", maxnow=330, level=11, inv=INV, props=PROPS):
    lines = ["SPECIFICATION MCSpec", "CONSTANTS", "  Dev = %s" % dev, "  Steps = %s" % steps, "  MaxNow = %d" % maxnow,
             "  MaxLevel = %d" % level, "CONSTRAINT Bound"]
    lines += ["INVARIANT %s" % i for i in inv] + ["PROPERTY %s" % p for p in props] + ["CHECK_DEADLOCK FALSE"]
    return "\n".join(lines) + "\n"


class LT(generic.Desc):
    name = "LoopTimer"
    mc_module = "MC_LoopTimer"
    sim_module = "Sim_LoopTimer"
    trace_module = "Trace_LoopTimer"
    driver = "lt_driver.py"
    rule = ("a trace is one LoopTimer with a recording logger and a schedule of clock advances (steady 1/64 s loops, jitter, "
            "stalls of several seconds, advances that land exactly on the one-second instant), measure(), reset() and "
            "re-construction; non-trivial when at least one report was logged; distinct by hash of the schedule")
    assumptions = ["simulated FPGA clock exact on the 1/64 s grid",
                   "when exactly one second has passed on the internal wpilib.Timer either outcome is accepted (the C++ "
                   "comparison works on rounded doubles)"]

    def tiers(self):
        return {"quick": dict(n_random=400, drivers=2, n_sim=150), "thorough": dict(n_random=20000, drivers=8, n_sim=3000)}

    def mc_runs(self, prop, tier):
        if tier == "quick":
            return [("steps {0,1,31,64,70,130}", mc_cfg(), 8, "4g")]
        return [("steps {0,1,31,33,64,70,130}", mc_cfg(steps="{0, 1, 31, 33, 64, 70, 130}", maxnow=460, level=13), 16, "16g")]

    def teeth(self, prop):
        return [("loops_not_reset", mc_cfg(dev='{"loops_not_reset"}'), {"LT_LoopsCounted"})]

    def probes(self, prop):
        return [(p, mc_cfg(inv=[p], props=[])) for p in ("Probe_TwoReports", "Probe_BackToBack", "Probe_Tie")]

    def sim_run(self, prop, tier, sd):
        depth = 40 if tier == "quick" else 120
        cfg = "\n".join(["SPECIFICATION SimSpec", "CONSTANTS", "  Dev = {}", "  Steps = {0, 1, 2, 31, 64, 70, 200}",
                         "  MaxNow = 100000000", "  MaxLevel = 1000000", "  SimDepth = %d" % depth, "CONSTRAINT Emit",
                         "CONSTRAINT SimStop", "CHECK_DEADLOCK FALSE"]) + "\n"
        return cfg, "num=%d" % (30 if tier == "quick" else 600), depth + 2

    def canary(self, prop, traces):
        for t in traces:
            for i, st in enumerate(t["steps"]):
                if st["in"]["e"] == "measure" and st["out"]["r"]:
                    c = copy.deepcopy(t)
                    c["id"] = 999999999
                    c["steps"][i]["out"]["loops"] += 1
                    c["steps"] = c["steps"][:i + 1]
                    return c
        raise MachineryError("no trace suitable for a canary")

    def nontrivial(self, prop, v, t):
        return "report" in v.get("seen", [])

    def required_tags(self, prop):
        return {"new", "tick", "measure", "reset", "report", "back_to_back", "reset_mid_window"}


def check(prop, tier):
    return generic.run_check(LT(), prop, tier)


def replay(path):
    return generic.replay(LT(), path)
