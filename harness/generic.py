"""The shape every spec-backed check has: exhaustive TLC runs (design, teeth, probes), traces recorded
from the real code (random + TLC-simulated behaviours replayed), batch acceptance by TLC, canary,
evidence.  A module descriptor (see e.g. sa_check.py) supplies the specifics."""
import json
import os
import random

from . import accept, tlc
from .common import Outcome, log, parallel, run_driver, seed, trace_key
from .tlc import MachineryError


class Desc:
    name = None              # spec module, e.g. "StatefulAuto"
    mc_module = None         # "MC_StatefulAuto"
    sim_module = None        # "Sim_StatefulAuto" or None
    trace_module = None      # "Trace_StatefulAuto"
    driver = None            # "sa_driver.py"
    level = "model_checking"
    assumptions = []
    rule = ""
    chunk = {"quick": 400, "thorough": 1500}

    # --- to override ---
    def mc_runs(self, prop, tier):
        """[(label, cfg_text, workers, heap)]"""
        return []

    def teeth(self, prop):
        """[(deviation, cfg_text, {acceptable violated names})]"""
        return []

    def probes(self, prop):
        """[(probe invariant, cfg_text)]"""
        return []

    def random_args(self, prop, tier, sd, k, per, first_id):
        return ["--seed", sd * 1000 + k, "--n", per, "--first-id", first_id]

    def tiers(self):
        return {"quick": dict(n_random=400, drivers=4, n_sim=200), "thorough": dict(n_random=16000, drivers=16, n_sim=4000)}

    def sim_run(self, prop, tier, sd):
        """-> (cfg_text, simulate arg, depth) or None"""
        return None

    def script_to_job(self, prop, i, s):
        return dict(s, id=1000000 + i)

    def trace_cfg(self, prop):
        return "\n".join(["SPECIFICATION TSpec", "CONSTANTS", "  Dev = {}", '  Prop = "%s"' % prop,
                          "CONSTRAINT Report", "CHECK_DEADLOCK FALSE"]) + "\n"

    def canary(self, prop, traces):
        raise NotImplementedError

    def nontrivial(self, prop, verdict, trace):
        return True

    def required_tags(self, prop):
        return set()

    def mismatch_key(self, prop, v, t):
        return {"module": self.name, "clause": sorted(v.get("clauses", ["?"]))[0]}

    def trace_for_replay(self, t, l):
        return {k: (val[:l] if k == "steps" else val) for k, val in t.items() if k != "id"}

    def extras(self, prop, tier, out):
        """anything else to attach to the evidence (runs after the verdicts are in)"""

    def sample(self, t):
        return {k: (v[:10] if k == "steps" else v) for k, v in t.items() if k != "id"}


def design_check(d, prop, tier, out):
    jobs = []
    for label, cfg, workers, heap in d.mc_runs(prop, tier):
        def main_run(label=label, cfg=cfg, workers=workers, heap=heap):
            r = tlc.run(d.mc_module, cfg, workers=workers, heap=heap, timeout=14400, tag="mc")
            tlc.require_clean(r, "%s %s" % (d.mc_module, label))
            return ("mc:" + label, r)
        jobs.append(main_run)
    for dev, cfg, expect in d.teeth(prop):
        def teeth(dev=dev, cfg=cfg, expect=expect):
            r = tlc.run(d.mc_module, cfg, workers=2, heap="2g", timeout=1200, tag="teeth")
            if r.violated not in expect:
                raise MachineryError("%s: deviation %s was not caught by %s (TLC said: %s)\n%s" % (
                    d.name, dev, sorted(expect), r.violated or r.summary(), "\n".join(r.out.splitlines()[-15:])))
            return ("teeth:" + dev, r)
        jobs.append(teeth)
    for probe, cfg in d.probes(prop):
        def pr(probe=probe, cfg=cfg):
            r = tlc.run(d.mc_module, cfg, workers=1, heap="2g", timeout=1200, tag="probe")
            if r.violated != probe:
                raise MachineryError("%s: probe %s is unreachable (%s)" % (d.name, probe, r.violated or r.summary()))
            return ("probe:" + probe, r)
        jobs.append(pr)
    for name, r in parallel(jobs, max_workers=5):
        if name.startswith("mc:"):
            out.add_mc("%s[%s]" % (d.mc_module, name[3:]), r)
        else:
            out.notes.setdefault("teeth_and_probes", []).append(
                {"name": name, "found": r.violated, "states": r.distinct})


def gen_traces(d, prop, tier, sd):
    p = d.tiers()[tier]
    nd = p["drivers"]
    per = max(1, p["n_random"] // nd)

    def rnd(k):
        wd = tlc.workdir("rdrv")
        path = os.path.join(wd, "out.json")
        run_driver(d.driver, ["--out", path] + d.random_args(prop, tier, sd, k, per, 1 + k * per), cwd=wd)
        return json.load(open(path))

    def sim():
        sr = d.sim_run(prop, tier, sd)
        if sr is None:
            return [], 0
        cfg, simarg, depth = sr
        r = tlc.run(d.sim_module, cfg, workers=1, heap="2g", timeout=3600, simulate=simarg, depth=depth,
                    seed=sd + 1, tag="sim")
        scripts = tlc.tagged(r, "S")
        if len(scripts) < 5:
            raise MachineryError("%s: simulation produced %d behaviours\n%s" % (d.sim_module, len(scripts), r.out[-3000:]))
        rng = random.Random(sd)
        rng.shuffle(scripts)
        scripts = scripts[:p["n_sim"]]
        jobs = [d.script_to_job(prop, i, s) for i, s in enumerate(scripts)]
        nchunk = min(4, max(1, len(jobs) // 20))
        chunks = [jobs[i::nchunk] for i in range(nchunk)]

        def one(ch):
            wd = tlc.workdir("sdrv")
            jp, op = os.path.join(wd, "jobs.json"), os.path.join(wd, "out.json")
            json.dump(ch, open(jp, "w"))
            run_driver(d.driver, ["--out", op, "--scripts", jp], cwd=wd)
            return json.load(open(op))
        outs = []
        for part in parallel([(lambda ch=ch: one(ch)) for ch in chunks if ch]):
            outs += part
        return outs, r.generated
    res = parallel([(lambda k=k: rnd(k)) for k in range(nd)] + [sim], max_workers=nd + 1)
    rnd_traces = [t for part in res[:-1] for t in part]
    sim_traces, sim_states = res[-1]
    return rnd_traces, sim_traces, sim_states


def judge(d, prop, out, traces, canary, verdicts, st):
    byid = {t["id"]: t for t in traces}
    canary_bad = None
    if canary is not None:
        cv = accept.final_verdict(verdicts[canary["id"]])
        if cv["v"] != "MISMATCH":
            # (judged below: corrupting an observation that is itself wrong can make it right)
            canary_bad = "%s: canary (corrupted observation) was not rejected: %s" % (d.name, cv)
    for iv in st["invariant_violations"]:
        out.violation("invariant %s is false on a trace recorded from the implementation" % iv["name"],
                      {"kind": "invariant_on_trace", "module": d.name, "property": prop, "invariant": iv["name"],
                       "tlc_states": iv["trace"], "key": {"module": d.name, "clause": iv["name"]}})
    keys = set()
    counts = {"ACCEPT": 0, "MISMATCH": 0, "FOREIGN": 0, "STUCK": 0}
    events = 0
    tags = {}
    for tid, t in byid.items():
        if tid not in verdicts:
            continue
        v = accept.final_verdict(verdicts[tid])
        counts[v["v"]] = counts.get(v["v"], 0) + 1
        events += len(t.get("steps", [])) or 1
        if v["v"] == "STUCK":
            raise MachineryError("%s: trace %s: event %s not enabled at step %s (harness out of sync)" % (
                d.name, tid, json.dumps(v.get("ev"))[:300], v.get("l")))
        if t.get("desync") and v["v"] == "ACCEPT":
            raise MachineryError("%s: trace %s: driver lost sync with its script but the trace was accepted: %s" % (
                d.name, tid, json.dumps(t.get("desync_where"))))
        if v["v"] == "MISMATCH":
            l = v.get("l", 0)
            summary = "%s trace %s step %s: clauses %s%s: expected %s observed %s" % (
                d.name, tid, l, v.get("clauses"), (" on " + json.dumps(v.get("br"))) if v.get("br") else "",
                json.dumps(v.get("exp"))[:500], json.dumps(v.get("obs"))[:500])
            out.violation(summary, {
                "kind": "trace_mismatch", "module": d.name, "property": prop, "verdict": v,
                "trace": d.trace_for_replay(t, l), "key": d.mismatch_key(prop, v, t)})
        if v["v"] == "ACCEPT":
            for b in v.get("seen", []):
                tags[b] = tags.get(b, 0) + 1
            if d.nontrivial(prop, v, t):
                keys.add(trace_key(t))
    if canary_bad and not out.violations:
        raise MachineryError(canary_bad)
    out.cov["evaluations"] = events
    out.cov["distinct_nontrivial"] = len(keys)
    out.cov["rule"] = d.rule
    out.notes["verdicts"] = counts
    out.notes["spec_branches_taken_by_impl_traces"] = tags
    missing = {x for x in d.required_tags(prop) if x not in tags}
    if missing and not out.violations:
        raise MachineryError("%s: no accepted implementation trace covered %s: the check would be vacuous" % (
            d.name, sorted(missing)))
    out.cov["samples"] = [d.sample(t) for t in traces[:2]]


def run_check(d, prop, tier):
    out = Outcome(prop, tier, level=d.level)
    sd = seed()
    design_check(d, prop, tier, out)
    rnd, sim, sim_states = gen_traces(d, prop, tier, sd)
    traces = rnd + sim
    canary = d.canary(prop, traces)
    verdicts, st = accept.accept(d.trace_module, d.trace_cfg(prop), traces + ([canary] if canary else []),
                                 chunk=d.chunk[tier], jobs=12)
    judge(d, prop, out, traces, canary, verdicts, st)
    out.cov["traces_validated_against_impl"] = len(traces)
    out.notes["random_traces"] = len(rnd)
    out.notes["spec_behaviours_replayed_on_code"] = len(sim)
    out.notes["acceptor_states"] = st["states"]
    out.notes["simulation_states"] = sim_states
    out.assumptions += list(d.assumptions)
    d.extras(prop, tier, out)
    return out.finish()


def replay(d, path):
    rp = json.load(open(path))
    prop = rp["property"]
    t = rp["trace"]
    wd = tlc.workdir("replay")
    jp, op = os.path.join(wd, "job.json"), os.path.join(wd, "out.json")
    job = dict(t, id=1)
    job["events"] = [s["in"] for s in t.get("steps", [])]
    json.dump([job], open(jp, "w"))
    run_driver(d.driver, ["--out", op, "--scripts", jp], cwd=wd)
    tr = json.load(open(op))
    verdicts, st = accept.accept(d.trace_module, d.trace_cfg(prop), tr)
    v = accept.final_verdict(verdicts[tr[0]["id"]])
    log("replay verdict: %s" % json.dumps(v)[:1500])
    if v["v"] == "MISMATCH" or st["invariant_violations"]:
        log("VIOLATION property=%s replay=%s" % (prop, path))
        return 1
    return 0
