"""C09: magicbot.tunable / setup_tunables against specs/Tunable.tla."""
import copy

from . import generic
from .tlc import MachineryError

INV = ["C09_Independent", "C09_Typed", "C09_SetupSucceeds"]
PROPS = ["C09_WriteDefault"]


def mc_cfg(shapes, *, dev="{}", level=7, inv=INV, props=PROPS):
    names = "{" + ", ".join('"%s"' % s for s in shapes) + "}"
    lines = ["SPECIFICATION MCSpec", "CONSTANTS", "  Dev = %s" % dev, "  ShapeNames = %s" % names, "  MaxLevel = %d" % level,
             "CONSTRAINT Bound"]
    lines += ["INVARIANT %s" % i for i in inv] + ["PROPERTY %s" % p for p in props] + ["CHECK_DEADLOCK FALSE"]
    return "\n".join(lines) + "\n"


class TUN(generic.Desc):
    name = "Tunable"
    mc_module = "MC_Tunable"
    sim_module = "Sim_Tunable"
    trace_module = "Trace_Tunable"
    driver = "tun_driver.py"
    rule = ("a trace is one generated class with 1-3 tunables (all 13 supported type shapes incl. bytes, struct, arrays and "
            "type-hinted empty sequences; with/without subtable; writeDefault on/off) bound on 1-3 instances under "
            "components/autonomous/robot names, and an interleaving of NetworkTables-side writes (also before set-up), "
            "setup_tunables, python-side writes and reads from both sides; non-trivial when a value other than the default "
            "was read back through the attribute or a pre-existing value met set-up; distinct by hash of (shape, inputs)")
    assumptions = ["in-process NetworkTables instance; the harness reaches topics through its own typed publishers and generic reads "
                   "at the documented path",
                   "owner names are identifiers (no '/'); NetworkTables-side writes use the topic's own type"]

    def tiers(self):
        return {"quick": dict(n_random=800, drivers=4, n_sim=300), "thorough": dict(n_random=40000, drivers=16, n_sim=6000)}

    def mc_runs(self, prop, tier):
        if tier == "quick":
            return [("U1-U3", mc_cfg(["U1", "U2", "U3"], level=6), 12, "8g"),
                    ("U2 enabled-agrees", mc_cfg(["U2"], level=4, inv=INV + ["EnabledAgrees"]), 4, "4g")]
        return [("U1-U3", mc_cfg(["U1", "U2", "U3"], level=9), 16, "16g")]

    def teeth(self, prop):
        return [("shared_class_entry", mc_cfg(["U1"], dev='{"shared_class_entry"}', level=4), {"C09_Independent"}),
                ("default_always_written", mc_cfg(["U1"], dev='{"default_always_written"}', level=5), {"C09_WriteDefault"}),
                ("raw_getentry", mc_cfg(["U2"], dev='{"raw_getentry"}', level=4), {"C09_SetupSucceeds"})]

    def probes(self, prop):
        return [(p, mc_cfg(["U1"], level=6, inv=[p], props=[])) for p in ("Probe_Preserved", "Probe_Overwritten")]

    def sim_run(self, prop, tier, sd):
        depth = 14 if tier == "quick" else 30
        cfg = "\n".join(["SPECIFICATION SimSpec", "CONSTANTS", "  Dev = {}", '  ShapeNames = {"U1", "U2", "U3"}',
                         "  MaxLevel = 100000", "  SimDepth = %d" % depth, "CONSTRAINT Emit", "CONSTRAINT SimStop",
                         "CHECK_DEADLOCK FALSE"]) + "\n"
        return cfg, "num=%d" % (20 if tier == "quick" else 400), depth + 2

    def canary(self, prop, traces):
        for t in traces:
            for i, st in enumerate(t["steps"]):
                if st["in"]["e"] == "pyr" and st["out"].get("vi", -1) >= 0:
                    c = copy.deepcopy(t)
                    c["id"] = 999999999
                    c["steps"][i]["out"]["vi"] = (st["out"]["vi"] + 1) % 3
                    c["steps"] = c["steps"][:i + 1]
                    return c
        raise MachineryError("no trace suitable for a canary")

    def nontrivial(self, prop, v, t):
        return bool(set(v.get("seen", [])) & {"read_nondefault", "preserved", "overwritten"})

    def required_tags(self, prop):
        return {"setup", "pyw", "pyr", "ntw", "ntr", "preserved", "overwritten", "read_nondefault"}

    def mismatch_key(self, prop, v, t):
        l = v.get("l", 1)
        types = sorted({tu["type"] for tu in t["shape"]["tunables"]})
        return {"module": "Tunable", "clause": sorted(v.get("clauses", ["?"]))[0], "types": types}


def check(prop, tier):
    return generic.run_check(TUN(), prop, tier)


def replay(path):
    return generic.replay(TUN(), path)
