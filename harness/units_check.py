"""C18: units.convert and the linear sensor drivers against specs/Units.tla (exact rationals)."""
import json
import math
import os
from fractions import Fraction

from . import tlc
from .common import Outcome, run_driver, seed
from .tlc import MachineryError

INV = ["C18_Identity", "C18_RoundTrip", "C18_PathIndependent", "C18_Homogeneous", "C18_Additive", "C18_Anchors",
       "C18_CalibrationExact"]
CFG = "SPECIFICATION Spec\n" + "".join("INVARIANT %s\n" % i for i in INV) + "CONSTRAINT Emit\nCHECK_DEADLOCK FALSE\n"
TOL = 1e-9


def close(x, f):
    if x is None or isinstance(x, bool) or not isinstance(x, (int, float)) or math.isnan(x) or math.isinf(x):
        return False
    e = float(f)
    return abs(x - e) <= TOL * max(1.0, abs(e))


def check(prop, tier):
    out = Outcome(prop, tier)
    r = tlc.run("Units", CFG, workers=1, heap="4g", timeout=1800, tag="units")
    tlc.require_clean(r, "Units")
    out.add_mc("Units (all cases, algebraic laws in exact rationals)", r)
    emitted = {}
    for c in tlc.tagged(r, "S"):
        emitted[json.dumps(c["case"], sort_keys=True)] = c
    utab = tlc.tagged(r, "U")
    if not emitted or not utab:
        raise MachineryError("Units.tla emitted no cases")
    cases = list(emitted.values())
    wd = tlc.workdir("units")
    cp, op = os.path.join(wd, "cases.json"), os.path.join(wd, "out.json")
    json.dump({"units": utab[0], "cases": [c["case"] for c in cases]}, open(cp, "w"))
    run_driver("units_driver.py", ["--cases", cp, "--out", op], cwd=wd)
    res = json.load(open(op))
    if len(res) != len(cases):
        raise MachineryError("driver returned %d results for %d cases" % (len(res), len(cases)))
    # canary: a wrong expected value must be noticed by the comparison
    if close(float(Fraction(*cases[0]["exp"])) + 1e-6, Fraction(*cases[0]["exp"])):
        raise MachineryError("tolerance comparison accepts a wrong value")
    bad = 0
    kinds = {}
    for c, o in zip(cases, res):
        exp = Fraction(*c["exp"])
        k = c["case"]["k"]
        kinds[k] = kinds.get(k, 0) + 1
        fails = []
        if o["err"] is not None:
            fails.append("raised " + o["err"])
        elif not close(o["r"], exp):
            fails.append("value")
        if k == "convert" and o["err"] is None:
            oc = o["case"]
            v = Fraction(*c["case"]["v"])
            if not close(oc["_id"], v):
                fails.append("identity")
            if not close(oc["_rt"], v):
                fails.append("round_trip")
            if not isinstance(oc["_direct"], (int, float)) or not close(oc["_via"], Fraction(oc["_direct"])):
                fails.append("path_independence")
        if fails:
            bad += 1
            if bad <= 3:
                out.violation("case %s: %s: expected %s (= %.12g) got %r" % (json.dumps(c["case"]), fails, c["exp"], float(exp), o["r"]),
                              {"kind": "case_mismatch", "module": "Units", "property": prop, "case": c["case"],
                               "expected": c["exp"], "observed": o["r"], "error": o["err"], "fails": fails,
                               "key": {"module": "Units", "clause": fails[0], "k": k}})
    out.cov["traces_validated_against_impl"] = len(cases)
    out.cov["evaluations"] = len(cases)
    out.cov["distinct_nontrivial"] = sum(1 for c in cases if c["case"]["k"] != "convert" or c["case"]["a"] != c["case"]["b"])
    out.cov["exhaustive"] = True
    out.cov["rule"] = ("TLC enumerates every ordered triple of the 8 units (4 library units + a user-defined chain of depth up to 4) "
                       "x 7 rational values, and grids of sonar pulse widths / voltages / supply voltages / calibration pressures; "
                       "each case is checked against the algebraic laws in exact rationals and then run on the real code "
                       "(tolerance 1e-9 relative); non-trivial = not a same-unit conversion; all cases are distinct")
    out.cov["samples"] = [{"case": c["case"], "expected": c["exp"], "observed": o["r"]} for c, o in list(zip(cases, res))[:3]]
    out.notes["cases_by_kind"] = kinds
    out.assumptions += ["the pulse-width sonar's counter is replaced by a stub getPeriod() (this wpilib has no counter simulator); "
                        "analog voltages go through wpilib.simulation.AnalogInputSim",
                        "floating-point error is not analysed: results are compared with the exact rational within 1e-9 relative",
                        "voltages in (0, 10 uV) are reported as 10 uV by the pressure driver (as implemented; below the ADC's resolution)"]
    return out.finish()


def replay(path):
    return check(json.load(open(path))["property"], "quick")
