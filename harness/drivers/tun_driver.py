"""Drive magicbot.tunable / setup_tunables and record traces for specs/Tunable.tla.
NetworkTables is accessed independently of the code under test through typed publishers and generic reads.

usage: tun_driver.py --out FILE --seed S --n N [--first-id K]   |   tun_driver.py --out FILE --scripts FILE
"""
import argparse
import itertools
import json
import os
import random
import sys
from collections.abc import Sequence

REPO = os.environ.get("VERIF_REPO", "/repo")
sys.path.insert(0, REPO)
import ntcore  # noqa: E402
from wpimath.geometry import Translation2d  # noqa: E402
from magicbot.magic_tunable import setup_tunables, tunable  # noqa: E402

T2 = Translation2d
DOM = {
    "bool": [False, True, False], "int": [5, 7, -3], "float": [1.5, 2.25, -0.5], "str": ["a", "bc", ""],
    "bytes": [b"ab", b"\x00\x01", b""], "struct": [T2(1, 2), T2(0, 0), T2(-3, 4.5)],
    "int[]": [[1, 2], [3], [4, 5, 6]], "float[]": [[1.5], [2.0, 3.0], [0.25, 0.5, 0.75]],
    "bool[]": [[True, False], [False], [True, True, True]], "str[]": [["a"], ["b", "c"], ["", "d"]],
    "struct[]": [[T2(1, 2)], [T2(0, 0), T2(1, 1)], [T2(2, 2), T2(3, 3), T2(4, 4)]],
    "empty_int[]": [[], [3], [4, 5, 6]], "empty_str[]": [[], ["b", "c"], ["", "d"]],
}
TOPIC = {
    "bool": ntcore.BooleanTopic, "int": ntcore.IntegerTopic, "float": ntcore.DoubleTopic, "str": ntcore.StringTopic,
    "bytes": ntcore.RawTopic, "int[]": ntcore.IntegerArrayTopic, "float[]": ntcore.DoubleArrayTopic,
    "bool[]": ntcore.BooleanArrayTopic, "str[]": ntcore.StringArrayTopic, "empty_int[]": ntcore.IntegerArrayTopic,
    "empty_str[]": ntcore.StringArrayTopic,
}
TYPES = list(DOM)
_uid = itertools.count()


def doc_path(kind, name, sub, attr):
    """the documented key: /components/N/A, /autonomous/N/A, /robot/A, subtable inserted before A"""
    p = "/%s" % name if kind == "robot" else "/%s/%s" % (kind, name)
    if sub:
        p += "/" + sub
    return p + "/" + attr


def vi_of(ty, v):
    for i, d in enumerate(DOM[ty]):
        try:
            if isinstance(v, (list, tuple)):
                if list(v) == list(d) and len(v) == len(d):
                    return i
            elif type(v) is type(d) and v == d:
                return i
            elif isinstance(d, bool) is False and isinstance(v, (int, float)) and not isinstance(v, bool) \
                    and isinstance(d, (int, float)) and v == d and ty in ("float",):
                return i
        except Exception:
            pass
    return -2


class World:
    def __init__(self, shape):
        self.shape = shape
        self.uid = next(_uid)
        self.inst = ntcore.NetworkTableInstance.getDefault()
        self.pubs = {}
        ns = {}
        ann = {}
        for tu in shape["tunables"]:
            ty = tu["type"]
            d = DOM[ty][0]
            kw = {"writeDefault": bool(tu["wd"])}
            if tu["sub"]:
                kw["subtable"] = tu["sub"]
            if ty == "empty_int[]":
                ns[tu["attr"]] = tunable[Sequence[int]]([], **kw)
            elif ty == "empty_str[]":
                ann[tu["attr"]] = tunable[Sequence[str]]
                ns[tu["attr"]] = tunable([], **kw)
            else:
                ns[tu["attr"]] = tunable(d, **kw)
        ns["__annotations__"] = ann
        if shape.get("falsy_owner"):
            ns["__len__"] = lambda self_: 0          # an owner object that is falsy (an empty container, say)
        self.cls = type("TunOwner%d" % self.uid, (), ns)
        # names are made unique per trace: NetworkTables topics persist inside the process
        self.names = [x["name"] if x["kind"] == "robot" else "%s_%d_%d" % (x["name"], os.getpid(), self.uid)
                      for x in shape["insts"]]
        self.kinds = [x["kind"] for x in shape["insts"]]
        if "robot" in self.kinds:
            self.robot_name = "robot_%d_%d" % (os.getpid(), self.uid)
            self.names = [self.robot_name if k == "robot" else n for k, n in zip(self.kinds, self.names)]
        self.objs = [self.cls() for _ in shape["insts"]]

    def path(self, i, t):
        tu = self.shape["tunables"][t - 1]
        return doc_path(self.kinds[i - 1], self.names[i - 1], tu["sub"], tu["attr"])

    def publisher(self, i, t):
        key = (i, t)
        if key not in self.pubs:
            ty = self.shape["tunables"][t - 1]["type"]
            topic = self.inst.getTopic(self.path(i, t))
            if ty == "struct":
                pub = ntcore.StructTopic(topic, T2).publish()
            elif ty == "struct[]":
                pub = ntcore.StructArrayTopic(topic, T2).publish()
            elif ty == "bytes":
                pub = TOPIC[ty](topic).publish("raw")
            else:
                pub = TOPIC[ty](topic).publish()
            self.pubs[key] = pub
        return self.pubs[key]

    def nt_read(self, i, t):
        ty = self.shape["tunables"][t - 1]["type"]
        topic = self.inst.getTopic(self.path(i, t))
        ts = topic.getTypeString() if topic.exists() else "absent"
        if not topic.exists():
            return {"type": "absent", "vi": -1}
        if ty == "struct":
            sub = ntcore.StructTopic(topic, T2).subscribe(T2(99, 99))
            v = sub.get()
        elif ty == "struct[]":
            sub = ntcore.StructArrayTopic(topic, T2).subscribe([])
            v = sub.get()
        else:
            v = self.inst.getEntry(self.path(i, t)).getValue().value()
        return {"type": ts, "vi": vi_of(ty, v)}

    def apply(self, ev):
        k = ev["e"]
        i = ev["i"]
        if k == "setup":
            kind = self.kinds[i - 1]
            try:
                if kind == "robot":
                    setup_tunables(self.objs[i - 1], self.names[i - 1], None)
                else:
                    setup_tunables(self.objs[i - 1], self.names[i - 1], kind)
                return {"err": False}
            except Exception as e:  # noqa
                return {"err": True, "msg": "%s: %s" % (type(e).__name__, e)}
        t = ev["t"]
        tu = self.shape["tunables"][t - 1]
        ty = tu["type"]
        if k == "ntw":
            try:
                self.publisher(i, t).set(DOM[ty][ev["vi"]])
                return {"err": False}
            except Exception as e:  # noqa
                return {"err": True, "msg": "%s: %s" % (type(e).__name__, e)}
        if k == "pyw":
            try:
                setattr(self.objs[i - 1], tu["attr"], DOM[ty][ev["vi"]])
                return {"err": False}
            except Exception as e:  # noqa
                return {"err": True, "msg": "%s: %s" % (type(e).__name__, e)}
        if k == "pyr":
            try:
                v = getattr(self.objs[i - 1], tu["attr"])
            except Exception as e:  # noqa
                return {"type": "raised", "vi": -3, "msg": "%s: %s" % (type(e).__name__, e)}
            topic = self.inst.getTopic(self.path(i, t))
            return {"type": topic.getTypeString() if topic.exists() else "absent", "vi": vi_of(ty, v)}
        if k == "ntr":
            return self.nt_read(i, t)
        raise ValueError(ev)

    def close(self):
        for p in self.pubs.values():
            p.close()


def gen_shape(rng):
    nt = rng.choice([1, 2, 3])
    attrs = rng.sample(["x", "y", "speed", "name", "k"], nt)
    tun = [{"attr": a, "sub": rng.choice(["", "", "sub", a]), "type": rng.choice(TYPES), "wd": rng.random() < 0.5}
           for a in attrs]
    ni = rng.choice([1, 2, 3])
    insts = []
    for j in range(ni):
        kind = rng.choice(["components", "components", "autonomous", "robot"])
        if kind == "robot" and any(x["kind"] == "robot" for x in insts):
            kind = "components"
        insts.append({"kind": kind, "name": "robot" if kind == "robot" else rng.choice(["n1", "n2", "a"]) + str(j)})
    return {"tunables": tun, "insts": insts, "falsy_owner": rng.random() < 0.25}


def random_events(rng, shape):
    ni, ntn = len(shape["insts"]), len(shape["tunables"])
    ready = set()
    evs = []
    for _ in range(rng.choice([8, 16, 30])):
        r = rng.random()
        i = rng.randint(1, ni)
        t = rng.randint(1, ntn)
        if i not in ready and r < 0.35:
            evs.append({"e": "setup", "i": i})
            ready.add(i)
        elif r < 0.55:
            evs.append({"e": "ntw", "i": i, "t": t, "vi": rng.randint(0, 2)})
        elif r < 0.7 and i in ready:
            evs.append({"e": "pyw", "i": i, "t": t, "vi": rng.randint(0, 2)})
        elif r < 0.85 and i in ready:
            evs.append({"e": "pyr", "i": i, "t": t})
        else:
            evs.append({"e": "ntr", "i": i, "t": t})
    for i in sorted(ready):
        for t in range(1, ntn + 1):
            evs.append({"e": "pyr", "i": i, "t": t})
    return evs


def run_trace(tid, shape, events):
    try:
        w = World(shape)
    except Exception as e:  # noqa  - declaring the tunables / building the owner class raised
        return {"id": tid, "shape": shape, "steps": [{"in": {"e": "raised"}, "out": {"err": "%s: %s" % (type(e).__name__, e)}}]}
    steps = []
    for ev in events:
        ev = {k: v for k, v in ev.items() if k != "x"}
        steps.append({"in": ev, "out": w.apply(ev)})
    w.close()
    # the shape is reported with the names actually used
    sh = json.loads(json.dumps(shape))
    for x, n in zip(sh["insts"], w.names):
        x["name"] = n
    return {"id": tid, "shape": sh, "steps": steps}


def main():
    ap = argparse.ArgumentParser()
    ap.add_argument("--out", required=True)
    ap.add_argument("--seed", type=int, default=0)
    ap.add_argument("--n", type=int, default=100)
    ap.add_argument("--first-id", type=int, default=1)
    ap.add_argument("--scripts")
    a = ap.parse_args()
    traces = []
    if a.scripts:
        for j in json.load(open(a.scripts)):
            traces.append(run_trace(j["id"], j["shape"], j["events"]))
    else:
        rng = random.Random(a.seed)
        for i in range(a.n):
            sh = gen_shape(rng)
            traces.append(run_trace(a.first_id + i, sh, random_events(rng, sh)))
    json.dump(traces, open(a.out, "w"))


if __name__ == "__main__":
    main()
