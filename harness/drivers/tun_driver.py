"""Drive magicbot.tunable / setup_tunables and record traces for specs/Tunable.tla.
NetworkTables is accessed independently of the code under test through typed publishers and generic reads.

usage: tun_driver.py --out FILE --seed S --n N [--first-id K]   |   tun_driver.py --out FILE --scripts FILE
"""
import argparse
import importlib
import itertools
import json
import logging
import os
import random
import shutil
import sys
import typing
from collections.abc import Sequence

REPO = os.environ.get("VERIF_REPO", "/repo")
sys.path.insert(0, REPO)
import ntcore  # noqa: E402
from wpimath.geometry import Translation2d  # noqa: E402
from magicbot.magic_tunable import setup_tunables, tunable  # noqa: E402

logging.disable(logging.CRITICAL)

T2 = Translation2d
DOM = {
    "bool": [False, True, False], "int": [5, 7, -3], "float": [1.5, 2.25, -0.5], "str": ["a", "bc", ""],
    "bytes": [b"ab", b"\x00\x01", b""], "struct": [T2(1, 2), T2(0, 0), T2(-3, 4.5)],
    "int[]": [[1, 2], [3], [4, 5, 6]], "float[]": [[1.5], [2.0, 3.0], [0.25, 0.5, 0.75]],
    "bool[]": [[True, False], [False], [True, True, True]], "str[]": [["a"], ["b", "c"], ["", "d"]],
    "struct[]": [[T2(1, 2)], [T2(0, 0), T2(1, 1)], [T2(2, 2), T2(3, 3), T2(4, 4)]],
    "empty_int[]": [[], [3], [4, 5, 6]], "empty_str[]": [[], ["b", "c"], ["", "d"]],
    # the type hint is wider than the default's own type: the hint decides (x: float = tunable(1), tunable[float](1),
    # ClassVar[tunable[float]], x: Sequence[float] = tunable([1, 2]))
    "hint_float": [1, 2.25, -0.5], "hint_float_g": [1, 2.25, -0.5], "hint_float_cv": [1, 2.25, -0.5],
    "hint_float[]": [[1, 2], [2.5], [0.25, 0.5, 0.75]],
    # the hint is inherited: a base class declares 'x: float = tunable(0.5)', the owner class redefines x = tunable(1)
    "hint_float_inh": [1, 2.25, -0.5],
}
HINTED = {"hint_float": "float", "hint_float_g": "float", "hint_float_cv": "float", "hint_float[]": "float[]",
          "hint_float_inh": "float"}
TOPIC = {
    "bool": ntcore.BooleanTopic, "int": ntcore.IntegerTopic, "float": ntcore.DoubleTopic, "str": ntcore.StringTopic,
    "bytes": ntcore.RawTopic, "int[]": ntcore.IntegerArrayTopic, "float[]": ntcore.DoubleArrayTopic,
    "bool[]": ntcore.BooleanArrayTopic, "str[]": ntcore.StringArrayTopic, "empty_int[]": ntcore.IntegerArrayTopic,
    "empty_str[]": ntcore.StringArrayTopic, "hint_float": ntcore.DoubleTopic, "hint_float_g": ntcore.DoubleTopic,
    "hint_float_cv": ntcore.DoubleTopic, "hint_float[]": ntcore.DoubleArrayTopic, "hint_float_inh": ntcore.DoubleTopic,
}
TYPES = list(DOM)
NOREDECL = {"sub": "", "type": "none", "wd": False}      # (JSON null cannot be read by TLC's Json module)
_uid = itertools.count()


def doc_path(kind, name, sub, attr):
    """the documented key: /components/N/A, /autonomous/N/A, /robot/A, subtable inserted before A"""
    p = "/%s" % name if kind == "robot" else "/%s/%s" % (kind, name)
    if sub:
        p += "/" + sub
    return p + "/" + attr


def vi_of(ty, v):
    if ty in HINTED:
        for i, d in enumerate(DOM[ty]):
            if isinstance(d, list):
                if isinstance(v, (list, tuple)) and len(v) == len(d) and all(type(x) is float for x in v) \
                        and [float(x) for x in d] == list(v):
                    return i
            elif type(v) is float and v == float(d):
                return i
        return -2
    for i, d in enumerate(DOM[ty]):
        try:
            if isinstance(v, (list, tuple)):
                if list(v) == list(d) and len(v) == len(d):
                    return i
            elif type(v) is type(d) and v == d:
                return i
            elif isinstance(d, bool) is False and isinstance(v, (int, float)) and not isinstance(v, bool) \
                    and isinstance(d, (int, float)) and v == d and ty in ("float",):
                return i
        except Exception:
            pass
    return -2


MODE_MOD_SRC = """
import sys
_drv = sys.modules["__main__"]
Mode = _drv.AUTO_CLASSES[%d]
"""
AUTO_CLASSES = []


def write_auto_package(root, n):
    for m in [k for k in sys.modules if k == "autonomous" or k.startswith("autonomous.")]:
        del sys.modules[m]
    while root in sys.path:
        sys.path.remove(root)
    shutil.rmtree(root, ignore_errors=True)
    if n:
        pk = os.path.join(root, "autonomous")
        os.makedirs(pk)
        open(os.path.join(pk, "__init__.py"), "w").close()
        for i in range(n):
            with open(os.path.join(pk, "mode%d.py" % i), "w") as f:
                f.write(MODE_MOD_SRC % i)
        sys.path.insert(0, root)
    importlib.invalidate_caches()


class World:
    def __init__(self, shape):
        self.shape = shape
        self.uid = next(_uid)
        self.inst = ntcore.NetworkTableInstance.getDefault()
        self.pubs = {}
        self.insitu = bool(shape.get("insitu"))
        # in situ the robot's tunables live under the fixed prefix /robot, and NetworkTables topics persist inside
        # the process: attribute names are made unique per trace there
        sfx = "_%d_%d" % (os.getpid(), self.uid) if self.insitu else ""
        self.attrs = [tu["attr"] + sfx for tu in shape["tunables"]]
        layers = shape.get("layers") or [1] * len(shape["tunables"])       # 0: declared on a base class
        redecl = shape.get("redecl") or [NOREDECL] * len(shape["tunables"])    # base-class declaration that is overridden
        ns, ann, base_ns, base_ann = {}, {}, {}, {}
        for tu, attr, ly, rd in zip(shape["tunables"], self.attrs, layers, redecl):
            ty = tu["type"]
            d = DOM[ty][0]
            kw = {"writeDefault": bool(tu["wd"])}
            if tu["sub"]:
                kw["subtable"] = tu["sub"]
            tns, tann = (base_ns, base_ann) if ly == 0 else (ns, ann)
            # half of the hints are written as strings (quoted hints, "from __future__ import annotations")
            sh_ = (self.uid + len(attr)) % 2 == 0
            if ty == "hint_float_inh":
                base_ann[attr] = "float" if sh_ else float
                base_ns[attr] = tunable(0.5)
                ns[attr] = tunable(d, **kw)
                continue
            if ty == "empty_int[]":
                tns[attr] = tunable[Sequence[int]]([], **kw)
            elif ty == "empty_str[]":
                tann[attr] = "tunable[Sequence[str]]" if sh_ else tunable[Sequence[str]]
                tns[attr] = tunable([], **kw)
            elif ty == "hint_float":
                tann[attr] = "float" if sh_ else float
                tns[attr] = tunable(d, **kw)
            elif ty == "hint_float_g":
                tns[attr] = tunable[float](d, **kw)
            elif ty == "hint_float_cv":
                tann[attr] = "typing.ClassVar[tunable[float]]" if sh_ else typing.ClassVar[tunable[float]]
                tns[attr] = tunable(d, **kw)
            elif ty == "hint_float[]":
                tann[attr] = "Sequence[float]" if sh_ else Sequence[float]
                tns[attr] = tunable(list(d), **kw)
            else:
                tns[attr] = tunable(d, **kw)
            if rd["type"] != "none" and ly != 0:
                # the base class declares a tunable of the same name with another default / writeDefault / subtable /
                # type; the subclass's declaration is the one that counts
                rty = rd["type"]
                rkw = {"writeDefault": bool(rd["wd"])}
                if rd["sub"]:
                    rkw["subtable"] = rd["sub"]
                base_ns[attr] = tunable(DOM[rty][1] if not rty.startswith("empty") else DOM[rty][1], **rkw)
        ns["__annotations__"] = ann
        ns["execute"] = lambda self_: None
        if shape.get("falsy_owner"):
            ns["__len__"] = lambda self_: 0          # an owner object that is falsy (an empty container, say)
        bases = ()
        if shape.get("sm_owner"):
            # the owner is a magicbot.StateMachine (which brings tunables of its own: current_state, state_names ...)
            from magicbot import StateMachine, state
            def st0(self):
                pass
            base_ns["st0"] = state(first=True)(st0)
            if not base_ns.get("__annotations__"):
                base_ns["__annotations__"] = base_ann
            bases = (type("TunBase%d" % self.uid, (StateMachine,), base_ns),)
        elif base_ns:
            base_ns["__annotations__"] = base_ann
            bases = (type("TunBase%d" % self.uid, (), base_ns),)
        self.cls = type("TunOwner%d" % self.uid, bases, ns)
        # names are made unique per trace: NetworkTables topics persist inside the process
        self.names = [x["name"] if x["kind"] == "robot" else "%s_%d_%d" % (x["name"], os.getpid(), self.uid)
                      for x in shape["insts"]]
        self.kinds = [x["kind"] for x in shape["insts"]]
        if "robot" in self.kinds and not self.insitu:
            self.robot_name = "robot_%d_%d" % (os.getpid(), self.uid)
            self.names = [self.robot_name if k == "robot" else n for k, n in zip(self.kinds, self.names)]
        self.setup_done = None
        if not self.insitu:
            self.objs = [self.cls() for _ in shape["insts"]]
        else:
            self.build_robot()

    def build_robot(self):
        """in situ: the owners are components / autonomous modes / the robot of a real MagicRobot, and it is
        robotInit() that binds them (all of them, at the first 'setup' event)"""
        import magicbot
        del AUTO_CLASSES[:]
        rann = {}
        for k, n in zip(self.kinds, self.names):
            if k == "components":
                rann[n] = self.cls
            elif k == "autonomous":
                def noop(self_, *a):
                    pass
                AUTO_CLASSES.append(type("Mode_%s" % n, (self.cls,), {
                    "MODE_NAME": n, "on_enable": noop, "on_iteration": noop, "on_disable": noop}))
        write_auto_package(os.path.join(os.getcwd(), "autopkg_tun"), len(AUTO_CLASSES))
        rbases = (magicbot.MagicRobot, self.cls) if "robot" in self.kinds else (magicbot.MagicRobot,)
        self.R = type("TunRobot%d" % self.uid, rbases, {"__annotations__": rann, "createObjects": lambda self_: None})
        self.robot = self.R()
        self.objs = [None] * len(self.kinds)

    def robot_init(self):
        if self.setup_done is not None:
            return self.setup_done
        try:
            self.robot.robotInit()
            modes = self.robot._automodes.modes
            for j, (k, n) in enumerate(zip(self.kinds, self.names)):
                self.objs[j] = self.robot if k == "robot" else getattr(self.robot, n) if k == "components" else modes[n]
            self.setup_done = {"err": False}
        except Exception as e:  # noqa
            self.setup_done = {"err": True, "msg": "%s: %s" % (type(e).__name__, e)}
        return self.setup_done

    def path(self, i, t):
        tu = self.shape["tunables"][t - 1]
        return doc_path(self.kinds[i - 1], self.names[i - 1], tu["sub"], self.attrs[t - 1])

    def publisher(self, i, t):
        key = (i, t)
        if key not in self.pubs:
            ty = self.shape["tunables"][t - 1]["type"]
            topic = self.inst.getTopic(self.path(i, t))
            if ty == "struct":
                pub = ntcore.StructTopic(topic, T2).publish()
            elif ty == "struct[]":
                pub = ntcore.StructArrayTopic(topic, T2).publish()
            elif ty == "bytes":
                pub = TOPIC[ty](topic).publish("raw")
            else:
                pub = TOPIC[ty](topic).publish()
            self.pubs[key] = pub
        return self.pubs[key]

    def nt_read(self, i, t):
        ty = self.shape["tunables"][t - 1]["type"]
        topic = self.inst.getTopic(self.path(i, t))
        ts = topic.getTypeString() if topic.exists() else "absent"
        if not topic.exists():
            return {"type": "absent", "vi": -1}
        if ty == "struct":
            sub = ntcore.StructTopic(topic, T2).subscribe(T2(99, 99))
            v = sub.get()
        elif ty == "struct[]":
            sub = ntcore.StructArrayTopic(topic, T2).subscribe([])
            v = sub.get()
        else:
            v = self.inst.getEntry(self.path(i, t)).getValue().value()
        return {"type": ts, "vi": vi_of(ty, v)}

    def apply(self, ev):
        k = ev["e"]
        i = ev["i"]
        if k == "setup":
            kind = self.kinds[i - 1]
            if self.insitu:
                return dict(self.robot_init())
            try:
                if kind == "robot":
                    setup_tunables(self.objs[i - 1], self.names[i - 1], None)
                else:
                    setup_tunables(self.objs[i - 1], self.names[i - 1], kind)
                return {"err": False}
            except Exception as e:  # noqa
                return {"err": True, "msg": "%s: %s" % (type(e).__name__, e)}
        t = ev["t"]
        tu = self.shape["tunables"][t - 1]
        ty = tu["type"]
        if k == "ntw":
            try:
                pub = self.publisher(i, t)
                # a dashboard may seed a value that does not exist yet with set-default (value timestamp 0) instead of set
                if (i + t + ev["vi"]) % 3 == 0 and not self.inst.getEntry(self.path(i, t)).getValue().isValid():
                    pub.setDefault(DOM[ty][ev["vi"]])
                else:
                    pub.set(DOM[ty][ev["vi"]])
                return {"err": False}
            except Exception as e:  # noqa
                return {"err": True, "msg": "%s: %s" % (type(e).__name__, e)}
        if k == "pyw":
            try:
                setattr(self.objs[i - 1], self.attrs[t - 1], DOM[ty][ev["vi"]])
                return {"err": False}
            except Exception as e:  # noqa
                return {"err": True, "msg": "%s: %s" % (type(e).__name__, e)}
        if k == "pyr":
            try:
                v = getattr(self.objs[i - 1], self.attrs[t - 1])
            except Exception as e:  # noqa
                return {"type": "raised", "vi": -3, "msg": "%s: %s" % (type(e).__name__, e)}
            topic = self.inst.getTopic(self.path(i, t))
            return {"type": topic.getTypeString() if topic.exists() else "absent", "vi": vi_of(ty, v)}
        if k == "ntr":
            return self.nt_read(i, t)
        raise ValueError(ev)

    def close(self):
        for p in self.pubs.values():
            p.close()


def gen_shape(rng):
    nt = rng.choice([1, 2, 3])
    attrs = rng.sample(["x", "y", "speed", "name", "k", "_gain"], nt)      # a tunable may be a private attribute
    tun = [{"attr": a, "sub": rng.choice(["", "", "sub", a]), "type": rng.choice(TYPES), "wd": rng.random() < 0.5}
           for a in attrs]
    insitu = rng.random() < 0.35
    ni = rng.choice([1, 2, 3])
    insts = []
    for j in range(ni):
        kind = rng.choice(["components", "components", "autonomous", "robot"])
        if kind == "robot" and any(x["kind"] == "robot" for x in insts):
            kind = "components"
        insts.append({"kind": kind, "name": "robot" if kind == "robot" else rng.choice(["n1", "n2", "a"]) + str(j)})
    # conformance-only details: which tunables are declared on a base class, and base-class declarations of the same
    # name that the owner class overrides (other default / writeDefault / subtable / type)
    layers = [rng.choice([0, 1, 1]) for _ in tun]
    redecl = [({"sub": rng.choice(["", tu["sub"], "other"]), "type": rng.choice([tu["type"], tu["type"], "int", "str"]),
                "wd": rng.random() < 0.5} if ly == 1 and rng.random() < 0.3 else dict(NOREDECL)) for tu, ly in zip(tun, layers)]
    for r in redecl:
        if r["type"] in HINTED:
            r["type"] = "float"
    robot_owner = any(x["kind"] == "robot" for x in insts)
    return {"tunables": tun, "insts": insts, "layers": layers, "redecl": redecl, "insitu": insitu,
            "sm_owner": rng.random() < 0.25 and not robot_owner,
            "falsy_owner": rng.random() < 0.25 and not (insitu and any(x["kind"] == "robot" for x in insts))}


def random_events(rng, shape):
    ni, ntn = len(shape["insts"]), len(shape["tunables"])
    ready = set()
    evs = []
    if shape.get("insitu"):
        # robotInit() binds every owner at once: NetworkTables-side writes/reads first, then all set-ups
        for _ in range(rng.choice([0, 2, 5])):
            i, t = rng.randint(1, ni), rng.randint(1, ntn)
            evs.append({"e": "ntw", "i": i, "t": t, "vi": rng.randint(0, 2)} if rng.random() < 0.7 else
                       {"e": "ntr", "i": i, "t": t})
        order = list(range(1, ni + 1))
        rng.shuffle(order)
        for i in order:
            evs.append({"e": "setup", "i": i})
            ready.add(i)
    for _ in range(rng.choice([8, 16, 30])):
        r = rng.random()
        i = rng.randint(1, ni)
        t = rng.randint(1, ntn)
        if i not in ready and r < 0.35:
            evs.append({"e": "setup", "i": i})
            ready.add(i)
        elif r < 0.55:
            evs.append({"e": "ntw", "i": i, "t": t, "vi": rng.randint(0, 2)})
        elif r < 0.7 and i in ready:
            evs.append({"e": "pyw", "i": i, "t": t, "vi": rng.randint(0, 2)})
        elif r < 0.85 and i in ready:
            evs.append({"e": "pyr", "i": i, "t": t})
        else:
            evs.append({"e": "ntr", "i": i, "t": t})
    for i in sorted(ready):
        for t in range(1, ntn + 1):
            evs.append({"e": "pyr", "i": i, "t": t})
    return evs


def run_trace(tid, shape, events):
    # in every third trace simulated time stands still: NetworkTables timestamps do not advance between the writes
    # (what a read returns must not depend on timestamps moving)
    import hal.simulation as hs
    if tid % 3 == 0:
        hs.pauseTiming()
    else:
        hs.resumeTiming()
    try:
        w = World(shape)
    except Exception as e:  # noqa  - declaring the tunables / building the owner class raised
        return {"id": tid, "shape": shape, "steps": [{"in": {"e": "raised"}, "out": {"err": "%s: %s" % (type(e).__name__, e)}}]}
    steps = []
    for ev in events:
        ev = {k: v for k, v in ev.items() if k != "x"}
        steps.append({"in": ev, "out": w.apply(ev)})
    w.close()
    # the shape is reported with the names actually used
    sh = json.loads(json.dumps(shape))
    for x, n in zip(sh["insts"], w.names):
        x["name"] = n
    for tu, a in zip(sh["tunables"], w.attrs):
        tu["attr"] = a
    return {"id": tid, "shape": sh, "steps": steps}


def main():
    ap = argparse.ArgumentParser()
    ap.add_argument("--out", required=True)
    ap.add_argument("--seed", type=int, default=0)
    ap.add_argument("--n", type=int, default=100)
    ap.add_argument("--first-id", type=int, default=1)
    ap.add_argument("--scripts")
    a = ap.parse_args()
    traces = []
    if a.scripts:
        for j in json.load(open(a.scripts)):
            traces.append(run_trace(j["id"], j["shape"], j["events"]))
    else:
        rng = random.Random(a.seed)
        for i in range(a.n):
            sh = gen_shape(rng)
            traces.append(run_trace(a.first_id + i, sh, random_events(rng, sh)))
    json.dump(traces, open(a.out, "w"))


if __name__ == "__main__":
    main()
