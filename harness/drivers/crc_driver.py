"""robotpy_ext.misc.crc7: dump the lookup table, and record running checksums of messages.

usage: crc_driver.py --table FILE
       crc_driver.py --out FILE --mode all1|pairs|random --seed S --n N [--first-id K]
       crc_driver.py --out FILE --scripts FILE
"""
import argparse
import json
import os
import random
import sys

REPO = os.environ.get("VERIF_REPO", "/repo")
sys.path.insert(0, REPO)
from robotpy_ext.misc import crc7 as mod  # noqa: E402


import array  # noqa: E402

class IterOnly:
    def __init__(self, p):
        self._p = bytes(p)

    def __iter__(self):
        return iter(self._p)


FORMS = {"bytes": bytes, "list": list, "bytearray": bytearray, "tuple": tuple, "memoryview": lambda p: memoryview(bytes(p)),
         "array": lambda p: array.array("B", p),
         # byte VALUES held in wider items: still a sequence of bytes
         "arrayH": lambda p: array.array("H", p), "arrayq": lambda p: array.array("q", p),
         # views of part of a larger receive buffer: the message is what the view exposes
         "mv_slice": lambda p: memoryview(bytes([0xA5, 0x80]) + bytes(p) + bytes([0x7F, 1, 2]))[2:2 + len(p)],
         "mv_stride": lambda p: memoryview(bytes(x for b in p for x in (b, 0xEE)))[::2],
         # a re-iterable object that offers nothing but __iter__ (no __len__, no __getitem__)
         "iter_only": lambda p: IterOnly(p),
         "ba_slice_view": lambda p: memoryview(bytearray(bytes([9]) + bytes(p) + bytes([0x80])))[1:1 + len(p)]}


def aborted_call(rng):
    """a call that fails part-way (a buffer holding something that is not a byte); the caller survives it.
    The checksum of a message is a function of the message alone: whatever happened before must not matter."""
    junk = [rng.randrange(256) for _ in range(rng.choice([1, 2, 5]))] + [rng.choice([None, 300, -1000, "x", 2.5])]
    try:
        mod.crc7(junk)
    except Exception:
        pass


def crc_or_code(data):
    try:
        c = mod.crc7(data)
        return c if type(c) is int else -2
    except Exception:
        return -1


def trace(tid, msg, as_bytes=True, rng=None):
    steps = []
    if tid % 4 == 0:
        # the empty message, in one of its guises
        empty = [b"", [], (), bytearray(), memoryview(b""), memoryview(b"\x80\x01")[1:1]][tid // 4 % 6]
        steps.append({"in": {"e": "empty"}, "out": {"c": crc_or_code(empty)}})
    for i in range(len(msg)):
        prefix = msg[:i + 1]
        data = bytes(prefix) if as_bytes else list(prefix)
        if rng is not None:
            data = FORMS[rng.choice(sorted(FORMS))](prefix)
            if rng.random() < 0.15:
                aborted_call(rng)
            if rng.random() < 0.2:
                # the call before was for a longer frame that starts with this very message (a checksum depends on the
                # message alone, not on the one before)
                try:
                    mod.crc7(bytes(prefix) + bytes([0x5A, msg[0]]))
                except Exception:  # noqa
                    pass
                data = bytes(prefix)
            elif tid % 97 == 5 and i == len(msg) - 1:
                # a megabyte of leading zero bytes leaves the register at zero: the checksum of the padded message is
                # that of the message (long messages are messages too)
                data = bytes(1 << 20) + bytes(prefix)
        try:
            c = mod.crc7(data)
            if type(c) is not int:
                c = -2
        except Exception:
            c = -1
        steps.append({"in": {"e": "byte", "b": msg[i]}, "out": {"c": c}})
    return {"id": tid, "shape": {}, "steps": steps}


def main():
    ap = argparse.ArgumentParser()
    ap.add_argument("--table")
    ap.add_argument("--out")
    ap.add_argument("--mode", default="random")
    ap.add_argument("--seed", type=int, default=0)
    ap.add_argument("--n", type=int, default=100)
    ap.add_argument("--first-id", type=int, default=1)
    ap.add_argument("--scripts")
    a = ap.parse_args()
    if a.table:
        json.dump([int(x) for x in mod._crc7_table], open(a.table, "w"))
        return
    traces = []
    if a.scripts:
        for j in json.load(open(a.scripts)):
            traces.append(trace(j["id"], [e["b"] for e in j["events"]]))
    elif a.mode == "all1":
        traces = [trace(a.first_id + b, [b]) for b in range(256)]
    elif a.mode == "pairs":
        # one implementation test per transition of the 128-state paired machine: for every reachable
        # checksum c (reached by a one-byte message) and every byte b
        first = {}
        for b in range(256):
            first.setdefault(mod.crc7(bytes([b])), b)
        tid = a.first_id
        for c in sorted(first):
            for b in range(256):
                traces.append(trace(tid, [first[c], b]))
                tid += 1
    elif a.mode == "all2":
        # every two-byte message, as bytes / bytearray alternately (only the whole message is observed)
        for hi in range(256):
            for lo in range(256):
                data = bytes([hi, lo]) if (hi + lo) % 2 else bytearray([hi, lo])
                try:
                    c = mod.crc7(data)
                    if type(c) is not int:
                        c = -2
                except Exception:
                    c = -1
                traces.append({"id": a.first_id + hi * 256 + lo, "shape": {}, "steps": [
                    {"in": {"e": "byte", "b": hi}, "out": {"c": -9}}, {"in": {"e": "byte", "b": lo}, "out": {"c": c}}]})
    elif a.mode == "suffix":
        # messages that end like text frames / padding: CR LF, LF, NUL, 0xFF ..., whole message observed only
        rng = random.Random(a.seed)
        tid = a.first_id
        for suf in ([13, 10], [10], [13], [0], [0, 0], [255], [255, 255], [10, 13], [32], [0x7E], [13, 10, 13, 10]):
            for n in (0, 1, 2, 5, 17, 64):
                for kind in (bytes, bytearray, list, tuple):
                    msg = [rng.randrange(256) for _ in range(n)] + suf
                    try:
                        c = mod.crc7(kind(msg))
                        if type(c) is not int:
                            c = -2
                    except Exception:
                        c = -1
                    traces.append({"id": tid, "shape": {}, "steps": [
                        {"in": {"e": "byte", "b": b}, "out": {"c": c if i == len(msg) - 1 else -9}} for i, b in enumerate(msg)]})
                    tid += 1
    elif a.mode == "inplace":
        # one mutable buffer checksummed, modified in place (same length) and checksummed again; only the
        # checksum of the whole buffer is observed (earlier steps carry -9 = not observed)
        rng = random.Random(a.seed)
        tid = a.first_id
        for n in (1, 2, 3, 8, 64):
            for kind in (bytearray, list):
                buf = kind(rng.randrange(256) for _ in range(n))
                for k in range(12):
                    try:
                        c = mod.crc7(buf)
                        if type(c) is not int:
                            c = -2
                    except Exception:
                        c = -1
                    msg = list(buf)
                    traces.append({"id": tid, "shape": {}, "steps": [
                        {"in": {"e": "byte", "b": b}, "out": {"c": c if i == n - 1 else -9}} for i, b in enumerate(msg)]})
                    tid += 1
                    for _ in range(rng.choice([1, 1, 2, 3])):
                        buf[rng.randrange(n)] ^= 1 << rng.randrange(8)
    elif a.mode == "long":
        # lengths around every multiple of 256 up to 1024 (a length field of the protocol is one byte wide)
        rng = random.Random(a.seed)
        tid = a.first_id
        for n in (255, 256, 257, 300, 511, 512, 513, 767, 768, 1023, 1024, 1025):
            for style in ("rand", "zeros_then_one"):
                msg = [rng.randrange(256) for _ in range(n)] if style == "rand" else [0] * (n - 1) + [1 + rng.randrange(255)]
                traces.append(trace(tid, msg, as_bytes=(n % 2 == 0)))
                tid += 1
    else:
        rng = random.Random(a.seed)
        for i in range(a.n):
            n = rng.choice([0, 1, 2, 3, 5, 8, 13, 32, 64])
            msg = [rng.choice([0, 255, 1, 128, rng.randrange(256), rng.randrange(256)]) for _ in range(n)]
            if not msg:
                msg = [rng.randrange(256)]
            traces.append(trace(a.first_id + i, msg, as_bytes=rng.random() < 0.5, rng=rng if i % 2 else None))
    json.dump(traces, open(a.out, "w"))


if __name__ == "__main__":
    main()
