"""Build the robot definitions enumerated by specs/Inject.tla with the real MagicRobot and run robotInit().

usage: inject_driver.py --cases FILE --out FILE
"""
import argparse
import json
import logging
import os
import shutil
import sys
import typing

REPO = os.environ.get("VERIF_REPO", "/repo")
sys.path.insert(0, REPO)
import magicbot  # noqa: E402
import wpilib  # noqa: E402
import wpilib.simulation  # noqa: E402

DS = wpilib.simulation.DriverStationSim

logging.disable(logging.CRITICAL)


class A:
    pass


class B(A):
    pass


class C:
    pass


PRESET = object()
UNSET = object()


def make_value(kind):
    if kind == "func":
        return lambda *a: 42          # a plain function object (at class level: a method of the robot)
    return {"A": A, "B": B, "C": C}[kind]() if kind in ("A", "B", "C") else \
        {"zero": 0, "int7": 7, "empty": "", "none": None, "list": [1, 2], "true": True, "false": False}[kind]


MODE_SRC = '''
class AM:
    MODE_NAME = "am"
    DISABLED = True
    instances = []

    def __init__(self):
        AM.instances.append(self)

    def on_enable(self):
        pass

    def on_iteration(self, tm):
        pass

    def on_disable(self):
        pass
'''


def prepare_package(root):
    pk = os.path.join(root, "autonomous")
    os.makedirs(pk, exist_ok=True)
    open(os.path.join(pk, "__init__.py"), "w").close()
    with open(os.path.join(pk, "am.py"), "w") as f:
        f.write(MODE_SRC)
    sys.path.insert(0, root)
    import autonomous.am as am
    return am.AM


RENAME = {"x": "log", "y": "er"}
RENAME2 = {"x": "error_report_interval", "y": "er"}     # a name MagicRobot itself has (overridden by the user's robot)
CUR = [RENAME]


def rn(name):
    """python identifier for an abstract attribute name: in every fifth case the names are short ones that happen to be
    substrings of framework names ('log', 'er' in 'logger')"""
    for pre in ("c1_", "c2_", "am_"):
        if name.startswith(pre):
            return pre + rn(name[len(pre):])
    return CUR[0].get(name, name)


def unrn(name):
    inv = {v: k for k, v in CUR[0].items()}
    for pre in ("c1_", "c2_", "am_"):
        if name.startswith(pre):
            return pre + unrn(name[len(pre):])
    return inv.get(name, name)


def renamed(c):
    c = json.loads(json.dumps(c))
    for spec in c["comp"].values():
        for a in spec["attrs"]:
            a["n"] = rn(a["n"])
        for p in spec["ctor"]:
            p["n"] = rn(p["n"])
    c["robot"] = {rn(n): k for n, k in c["robot"].items()}
    for a in c["mode"]:
        a["n"] = rn(a["n"])
    return c


def run_case(c, AM, uid):
    X = "x"
    back = (lambda n: n)
    if uid % 5 == 2 or (uid % 5 == 4 and c["robot"].get("x", "missing") != "missing"):
        # (the second spelling only where the robot defines x: MagicRobot has a value of its own under that name)
        CUR[0] = RENAME if uid % 5 == 2 else RENAME2
        back = unrn
        c = renamed(c)
        X = rn("x")
    order = c["order"]
    K = {}
    ANN = {"A": A, "B": B, "C": C, "int": int, "str": str, "listint": list[int], "bool": bool,
           "callable": typing.Callable[[], int]}
    witness = {"setup_calls": 0, "setup_ok": True}
    requested = {}     # comp -> attribute names that must have been injected before any setup()
    for cn in order:
        spec = c["comp"][cn]
        ns = {}
        base_ann = {}
        own_ann = {}
        init_presets = [a["n"] for a in spec["attrs"] if a["preset"] == "init"]
        ctor = spec["ctor"]
        for a in spec["attrs"]:
            if a["preset"] == "class":
                ns[a["n"]] = PRESET
        # (in every other case the constructor parameters have default values: they are requested all the same)
        params = ", ".join(p["n"] + ("=None" if uid % 2 == 1 else "") for p in ctor)
        body = ["    pass"]
        if c.get("same"):
            # one class for both components: the constructor presets x only when told to (own)
            body += ["    if own:", "        self.%s = PRESET" % X]
        else:
            body += ["    self.%s = PRESET" % n for n in init_presets]
        body += ["    self._ctor_%s = %s" % (p["n"].lstrip("_"), p["n"]) for p in ctor]
        src = "def __init__(self%s):\n%s\n" % (", " + params if params else "", "\n".join(body))
        env = {"PRESET": PRESET}
        exec(src, env)
        ns["__init__"] = env["__init__"]

        def setup(self, cn=cn):
            witness["setup_calls"] += 1
            for c2, names in requested.items():
                comp = getattr(ROBOT[0], c2, None)
                if comp is None or any(not hasattr(comp, n) for n in names):
                    witness["setup_ok"] = False
        ns["setup"] = setup
        ns["execute"] = lambda self: None
        inherited = [a for a in spec["attrs"] if a["preset"] == "inherited"]
        basepreset = [a for a in spec["attrs"] if a["preset"] == "baseclass"]
        bases = (object,)
        if uid % 3 == 1 and ctor and not c.get("same"):
            # the constructor (with its annotated parameters) is inherited from a base component class
            bases = (type("CtorBase_%s_%d" % (cn, uid), (object,), {"__init__": ns.pop("__init__")}),)
        if inherited or basepreset:
            bases = (type("Base_%s_%d" % (cn, uid), bases,
                          dict({"__annotations__": {}}, **{a["n"]: PRESET for a in basepreset})),)
        K[cn] = type("K_%s_%d" % (cn, uid), bases, ns)
        if c.get("same") and len(K) == 2:
            K[cn] = K[order[0]]          # the second component is another instance of the first one's class
        requested[cn] = [a["n"] for a in spec["attrs"] if a["n"] != "_p" and a["preset"] in ("no", "inherited")]
    ANN["K1"] = K.get("c1", type("Never1", (), {}))
    ANN["K2"] = K.get("c2", type("Never2", (), {}))
    for cn in order:
        spec = c["comp"][cn]
        own = {}
        for a in spec["attrs"]:
            if a["preset"] == "inherited":
                K[cn].__mro__[1].__annotations__[a["n"]] = ANN[a["ann"]]
            else:
                own[a["n"]] = ANN[a["ann"]]
        K[cn].__annotations__ = own
        K[cn].__init__.__annotations__ = dict({p["n"]: ANN[p["ann"]] for p in spec["ctor"]}, **{"return": None})
    if uid % 4 == 1:
        # typing.Annotated[T, ...] is T plus metadata
        for cn in order:
            K[cn].__annotations__ = {n: typing.Annotated[t, "units: m"] for n, t in K[cn].__annotations__.items()}
    vals = {n: make_value(k) for n, k in c["robot"].items() if k != "missing"}
    rns = {"__annotations__": {cn: K[cn] for cn in order}}
    if c["clslvl"]:
        rns.update(vals)
        rns["createObjects"] = lambda self: None
    else:
        if c.get("shadow"):
            # class-level attributes of the same names holding other objects of the same kinds
            rns.update({n: make_value(k) if k not in ("zero", "empty", "none") else {"zero": 7, "empty": "zz", "none": A()}[k]
                        for n, k in c["robot"].items() if k != "missing"})

        def createObjects(self):
            for n, v in vals.items():
                setattr(self, n, v)
        rns["createObjects"] = createObjects
    AM.__annotations__ = {a["n"]: ANN[a["ann"]] for a in c["mode"]}
    AM.DISABLED = not c["mode"]
    del AM.instances[:]
    robot_bases = (magicbot.MagicRobot,)
    if uid % 4 == 3:
        # an inherited robot: the robot attributes (class level or createObjects) live on a base robot class, the
        # derived robot only declares the components
        base_rns = {k: v for k, v in rns.items() if k != "__annotations__"}
        robot_bases = (type("InjRobotBase%d" % uid, (magicbot.MagicRobot,), base_rns),)
        rns = {"__annotations__": rns["__annotations__"]}
    R = type("InjRobot%d" % uid, robot_bases, rns)
    # whether the field management system is attached must not matter: a missing or mistyped dependency stops start-up
    DS.setFmsAttached(uid % 3 == 0)
    DS.notifyNewData()
    wpilib.DriverStation.refreshData()
    try:
        r = R()
        ROBOT[0] = r
        r.robotInit()
    except Exception as e:  # noqa
        return {"ok": False, "error": type(e).__name__, "msg": str(e)[:200], "setup_calls": witness["setup_calls"]}

    def ident(v, owner, n):
        for name in (n, owner + "_" + n):
            if name in K and v is getattr(r, name, None):
                return "comp." + back(name)
            if name in vals and vals[name] is not None and v is vals[name]:
                return "robot." + back(name)
        return "preset" if v is PRESET else "unset" if v is UNSET else "other"
    out = {"ok": True, "attrs": {}, "ctor": {}, "mode": [], "setup_ok": witness["setup_ok"],
           "setup_calls": witness["setup_calls"]}
    for cn in order:
        comp = getattr(r, cn)
        spec = c["comp"][cn]
        out["attrs"][cn] = [ident(getattr(comp, a["n"], UNSET), cn, a["n"]) for a in spec["attrs"]]
        out["ctor"][cn] = [ident(getattr(comp, "_ctor_" + p["n"].lstrip("_"), UNSET), cn, p["n"]) for p in spec["ctor"]]
    if c["mode"]:
        if len(AM.instances) != 1:
            out["mode"] = ["instances=%d" % len(AM.instances)]
        else:
            out["mode"] = [ident(getattr(AM.instances[0], a["n"], UNSET), "am", a["n"]) for a in c["mode"]]
    return out


ROBOT = [None]


def main():
    ap = argparse.ArgumentParser()
    ap.add_argument("--cases", required=True)
    ap.add_argument("--out", required=True)
    a = ap.parse_args()
    root = os.path.join(os.getcwd(), "autopkg")
    AM = prepare_package(root)
    DS.setDsAttached(True)
    out = []
    for i, c in enumerate(json.load(open(a.cases))):
        out.append(run_case(c, AM, i))
    json.dump(out, open(a.out, "w"))
    shutil.rmtree(root, ignore_errors=True)


if __name__ == "__main__":
    main()
