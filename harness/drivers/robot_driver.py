"""Drive the real magicbot.MagicRobot.startCompetition() loop in a thread under the HAL simulator and
record (event, observation) traces in the format of specs/MagicRobot.tla.

Public API and user callbacks only.  Every user callback of the generated robot / components /
autonomous modes calls HOOK, which logs the site, FPGA time, /robot/mode and a snapshot of all
component attributes, then performs what the environment script says (attribute writes, clock
advance, raise, return value).  The robot thread is stopped at every NotifierDelay.wait() by a
wrapper around hal.waitForNotifierAlarm; driver-station changes are applied only then.

usage: robot_driver.py --out FILE --seed S --n N [--first-id K]
       robot_driver.py --out FILE --scripts FILE
"""
import argparse
import importlib
import json
import logging
import os
import random
import shutil
import sys
import threading
import time

REPO = os.environ.get("VERIF_REPO", "/repo")
sys.path.insert(0, REPO)

import hal  # noqa: E402
import hal.simulation as hs  # noqa: E402
import ntcore  # noqa: E402
import wpilib  # noqa: E402
import wpilib.simulation  # noqa: E402
from collections.abc import Sequence  # noqa: E402
from wpimath.geometry import Translation2d  # noqa: E402
from magicbot import MagicRobot, StateMachine, feedback, will_reset_to  # noqa: E402
from magicbot import default_state as sm_default_state, state as sm_state  # noqa: E402
from magicbot.magiccomponent import MagicComponent  # noqa: E402

DS = wpilib.simulation.DriverStationSim
logging.disable(logging.CRITICAL)

MAX_EVENTS = 3000
MISSING = -999
NOTINT = -998
# values that are equal to a declared default without being it (the reset must still put the default back)
SPECIAL = {1000: False, 1001: True, 1002: 1.0, 1003: -0.0, 1004: 0.0, 1005: 5.0}


class _Sentinel:
    """a default that is meant to be recognised by identity ("if self.request is not NO_REQUEST")"""

    def __deepcopy__(self, memo):
        return _Sentinel()


NO_REQUEST = _Sentinel()




def code_of(v):
    if v is NO_REQUEST:
        return 5
    if isinstance(v, _Sentinel):
        return NOTINT           # a copy of the sentinel is not the sentinel
    if type(v) is int:
        return v
    if type(v) is bool:
        return 1001 if v else 1000
    if type(v) is float:
        import math
        if v == 0.0:
            return 1003 if math.copysign(1.0, v) < 0 else 1004
        return {1.0: 1002, 5.0: 1005}.get(v, NOTINT)
    return NOTINT


class Hang(Exception):
    pass


class InjectedError(Exception):
    pass


# ------------------------------------------------------------------------------------------------
# the recorder (one history at a time)
# ------------------------------------------------------------------------------------------------
class Rec:
    log = []
    policy = None
    robot = None
    layout = None
    inst = None
    waiting = threading.Event()
    go = threading.Event()
    t0 = 0
    overflow = False


_real_wait = hal.waitForNotifierAlarm


def _wait_wrapper(handle):
    Rec.log.append({"e": "wait"})
    Rec.waiting.set()
    if not Rec.go.wait(30):
        raise Hang("driver never released the robot thread")
    Rec.go.clear()
    r = _real_wait(handle)
    Rec.log.append({"e": "wake", "t": wpilib.RobotController.getFPGATime() - Rec.t0})
    return r


hal.waitForNotifierAlarm = _wait_wrapper


def snapshot():
    r = Rec.robot
    out = {}
    inj = True
    for c in Rec.layout["comps"]:
        comp = getattr(r, c, None)
        d = {}
        attrs = list(Rec.layout["resets"][c]) + list(Rec.layout["plain"][c])
        for a in attrs:
            if comp is None or not hasattr(comp, a):
                d[a] = MISSING
            else:
                v = getattr(comp, a)
                d[a] = code_of(v)
                if d[a] == NOTINT:
                    inj = False
        if comp is None or not hasattr(comp, "shared") or comp.shared is not getattr(r, "shared", None):
            inj = False
        if comp is not None and getattr(comp, "logger", None) is None:
            inj = False
        out[c] = d
    return out, inj


def HOOK(k, o, key="", arg=None, st=""):
    """Called from inside every user callback."""
    if len(Rec.log) > MAX_EVENTS:
        # the robot thread is spinning without ever blocking in NotifierDelay.wait(): stop recording, let the
        # driver notice (it reports a 'hang' observation) and keep the thread from eating memory
        Rec.overflow = True
        time.sleep(0.05)
        return 0
    dec = Rec.policy.decide(k, o, key)
    vals, inj = snapshot()
    ev = {"e": "cb", "k": k, "o": o, "key": key, "raise": bool(dec["raise"]), "w": dec["w"],
          "adv": dec["adv"], "ret": dec["ret"], "eng": list(dec.get("eng", [])), "st": st, "dsw": dec.get("dsw", ""), "endc": bool(dec.get("endc")),
          "t": wpilib.RobotController.getFPGATime() - Rec.t0,
          "m": Rec.inst.getEntry("/robot/mode").getString(""),
          "vals": vals, "inj": inj,
          "arg": -1 if arg is None else int(round(arg * 1e6))}
    Rec.log.append(ev)
    for w in dec["w"]:
        setattr(getattr(Rec.robot, w["c"]), w["a"], SPECIAL.get(w["v"], w["v"]))
    for c in dec.get("eng", []):
        getattr(Rec.robot, c).engage()
    if dec["adv"]:
        hs.stepTimingAsync(dec["adv"])
    if dec.get("dsw"):
        # the driver station sends a new control word while this callback runs: it is queued (not polled for the robot:
        # DriverStationSim.notifyNewData() would call refreshData() itself); the robot sees it at its next poll
        m = dec["dsw"]
        hs.setDriverStationEnabled(m != "disabled")
        hs.setDriverStationAutonomous(m == "auto" or (m == "disabled" and len(Rec.log) % 2 == 0))
        hs.setDriverStationTest(m == "test")
        hs.notifyDriverStationNewData()
    if dec.get("endc"):
        # endCompetition() from inside a callback (what a "shut down" button handler or a supervising thread does)
        Rec.ended_by_cb = True
        Rec.robot.endCompetition()
    if dec["raise"]:
        # the class of the exception must not matter (AttributeError looks like "hook not defined" to a careless getattr)
        kinds = (RuntimeError, AttributeError, KeyError, ValueError, ZeroDivisionError, AssertionError, LookupError,
                 TypeError, OSError, InjectedError, StopIteration, NotImplementedError)
        args = ("injected fault at %s.%s" % (o, k),)
        if len(Rec.log) % 3 == 0:
            args += ({"site": k, "owner": o}, [1, 2])       # exception arguments need not be hashable
        raise kinds[(len(Rec.log) + len(k)) % len(kinds)](*args)
    return dec["ret"]


# ------------------------------------------------------------------------------------------------
# generated robot
# ------------------------------------------------------------------------------------------------
class Shared:
    pass


def comp_name(self_, fallback):
    """the name the framework gave this component (its injected logger carries it); needed when several
    components share one class"""
    lg = getattr(self_, "logger", None)
    return lg.name if lg is not None and lg.name in Rec.layout["comps"] else fallback


def make_component(c, layout, variant):
    resets = layout["resets"][c]
    plain = layout["plain"][c]
    has = layout["has"][c]
    inherited = layout.get("inherit", {}).get(c, [])
    redeclared = layout.get("redeclare", {}).get(c, [])   # marker re-declared in the subclass with another default
    shadowed = layout.get("shadow", {}).get(c, [])        # base-class marker shadowed by a plain class attribute
    base_ns = {}
    ns = {"__annotations__": {"shared": Shared}}
    if "g" in plain:
        ns["__annotations__"]["g"] = int        # an injected attribute (robot attribute '<component>_g'): a plain one
    # (one marker object may be bound under several names: grab = release = will_reset_to(False))
    markers = {}
    for a, d in resets.items():
        mk_ = markers.get(d) if layout.get("sharedmarker", {}).get(c) else None
        if mk_ is None:
            mk_ = markers[d] = will_reset_to(NO_REQUEST if d == 5 and variant % 3 == 2 else d)
        (base_ns if a in inherited else ns)[a] = mk_
        if a in redeclared and a not in inherited:
            base_ns[a] = will_reset_to(d + 100)
    for a in shadowed:
        base_ns[a] = will_reset_to(77)
        ns[a] = plain[a]

    initassign = layout.get("initassign", {}).get(c, [])    # markers whose name the constructor assigns as well

    def __init__(self):
        for a, v in plain.items():
            if a != "g":
                setattr(self, a, v)
        for a in initassign:
            setattr(self, a, 55)
    ns["__init__"] = __init__

    is_sm = c in layout.get("sm", [])
    via_magic = (not is_sm) and variant % 3 == 1
    if via_magic:
        base_ns.setdefault("__doc__", "intermediate base of a MagicComponent-derived component")
    if is_sm:
        # a magicbot.StateMachine as a component: never engaged, so its default state is what execute() runs
        def go(self):
            HOOK("execute", comp_name(self, c), st="go")
        ns["go"] = sm_state(first=True)(go)

        def idle(self):
            HOOK("execute", comp_name(self, c), st="idle")
        ns["idle"] = sm_default_state(idle)
    else:
        def execute(self):
            HOOK("execute", comp_name(self, c))
        ns["execute"] = execute
    forms = layout.get("hookform", {}).get(c, {})
    attr_hooks = []
    for k in ("setup", "on_enable", "on_disable"):
        if has[k]:
            form = "method" if is_sm else forms.get(k, "method")
            # a hook is whatever getattr(component, name) gives and can be called: a static or class method, or a
            # callable stored on the instance, as well as a plain method
            if form == "static":
                ns[k] = staticmethod(lambda k=k: HOOK(k, c))
                continue
            if form == "class":
                ns[k] = classmethod(lambda cls_, k=k: HOOK(k, c))
                continue
            if form == "attr":
                attr_hooks.append(k)
                continue

            def f(self, k=k):
                HOOK(k, comp_name(self, c))
                if is_sm and k != "setup":
                    getattr(StateMachine, k)(self)
            f.__name__ = k
            # (a component may derive from magicbot.MagicComponent and inherit its hooks from a class in between)
            (base_ns if via_magic else ns)[k] = f
    if attr_hooks:
        import functools
        init0 = ns["__init__"]

        def __init__(self):
            init0(self)
            for k in attr_hooks:
                setattr(self, k, functools.partial(HOOK, k, c))
        ns["__init__"] = __init__
    for g in layout["feedbacks"]:
        if g["o"] == c:
            shared = set(layout.get("sameclass", {})) | set(layout.get("sameclass", {}).values()) \
                | set(layout.get("derive", {})) | set(layout.get("derive", {}).values())
            add_getter(ns, c, g["key"], variant, g.get("ty", "int"), g.get("sann", False), g.get("inplace", False),
                       base_ns if g.get("ovr") else None, cm_ok=c not in shared)
    if layout.get("valueeq", {}).get(c):
        # components that compare equal whenever they are of the same class (dataclass-like): still two components
        ns["__eq__"] = lambda a, b: type(a) is type(b)
        ns["__hash__"] = lambda a: 7
    root = StateMachine if is_sm else MagicComponent if via_magic else object
    bases = (root,)
    if base_ns:
        bases = (type("Base_" + c, (root,), base_ns),)
    return type("Comp_" + c, bases, ns)


T2 = Translation2d
FB_DOM = {
    "bool": [False, True], "float": [1.5, 2.25, -0.5], "str": ["a", "bc", ""], "struct": [T2(1, 2), T2(0, 0), T2(-3, 4.5)],
    "int[]": [[1, 2], [3], [4, 5, 6]], "float[]": [[1.5], [2, 3], [0.25, 0.5, 0.75]],
    "bool[]": [[True, False], [False], [True, True, True]], "str[]": [["a"], ["b", "c"], ["", "d"]],
    "struct[]": [[T2(1, 2)], [T2(0, 0), T2(1, 1)], [T2(2, 2), T2(3, 3), T2(4, 4)]],
}
FB_ANN = {"int": int, "float": float, "bool": bool, "str": str, "struct": T2, "int[]": list[int], "float[]": tuple[float, ...],
          "bool[]": tuple[bool, ...], "str[]": Sequence[str], "struct[]": list[T2]}


# the same hints as strings (postponed evaluation, "from __future__ import annotations", quoted hints)
FB_ANN_STR = {"int": "int", "float": "float", "bool": "bool", "str": "str", "struct": "T2", "int[]": "list[int]",
              "float[]": "tuple[float, ...]", "bool[]": "tuple[bool, ...]", "str[]": "Sequence[str]", "struct[]": "list[T2]"}


def add_getter(ns, o, key, variant, ty="int", sann=False, inplace=False, base_ns=None, cm_ok=False):
    box = []         # inplace: the getter hands out ONE list object, updated in place by the component

    def getter(self):
        me = o if o == "robot" else comp_name(self, o)
        r = HOOK("feedback", me, key=key if me == o else "%s@%s" % (key, me))
        if ty in ("int", "none"):
            return r
        dom = FB_DOM[ty]
        if inplace and isinstance(dom[0], list):
            box[:] = dom[r % len(dom)]
            return box
        return dom[r % len(dom)]
    if base_ns is not None:
        # the component's base class declares a @feedback getter of the same name; the override is the only one
        def base_getter(self):
            HOOK("feedback", o, key=key + "@@base")
            return -12345
        base_getter.__name__ = ("get_" + key) if variant % 2 == 0 else (("_read_" if variant % 4 == 3 else "read_") + key)
        base_ns[base_getter.__name__] = feedback(base_getter) if variant % 2 == 0 else feedback(key=key)(base_getter)
    if ty != "none":
        getter.__annotations__ = {"return": FB_ANN_STR[ty] if sann else FB_ANN[ty]}
    if variant % 2 == 0:
        # (a getter made by a factory keeps the factory's function name; the key comes from the attribute it is bound to)
        getter.__name__ = "get_" + key if (variant // 2) % 3 != 1 else "made_by_factory"
        # (... and a getter may be a class method)
        ns["get_" + key] = classmethod(feedback(getter)) if variant % 5 == 4 and cm_ok and base_ns is None \
            else feedback(getter)
    else:
        # (with an explicit key the method's own name is free: it may be a private one)
        getter.__name__ = ("_read_" if variant % 4 == 3 else "read_") + key
        ns[getter.__name__] = feedback(key=key)(getter)


def read_feedback(inst, path, ty):
    """-> (value code, type string) read independently of the code under test"""
    topic = inst.getTopic(path)
    if not topic.exists():
        return -1, "absent"
    ts = topic.getTypeString()
    if not inst.getEntry(path).getValue().isValid():
        return -1, ts            # the topic was announced (typed publisher) but nothing was published yet
    try:
        if ty == "struct":
            v = ntcore.StructTopic(topic, T2).subscribe(T2(99, 99)).get()
        elif ty == "struct[]":
            v = ntcore.StructArrayTopic(topic, T2).subscribe([]).get()
        else:
            v = inst.getEntry(path).getValue().value()
    except Exception:
        return -3, ts
    if ty in ("int", "none"):
        if isinstance(v, bool) or not isinstance(v, (int, float)) or v != int(v):
            return -2, ts
        return int(v), ts
    for i, d in enumerate(FB_DOM[ty]):
        try:
            if isinstance(d, list):
                if isinstance(v, (list, tuple)) and len(v) == len(d) and list(v) == d:
                    return i, ts
            elif type(v) is type(d) and v == d:
                return i, ts
        except Exception:
            pass
    return -2, ts


def make_derived(c, base_cls, layout):
    """the class of component c derives from the class of an earlier component: it adds a marker of its own (rx)
    and re-declares the markers listed in layout["derive_redecl"][c] with the defaults given in layout["resets"][c]"""
    ns = {"rx": will_reset_to(layout["resets"][c]["rx"])}
    for a in layout.get("derive_redecl", {}).get(c, []):
        ns[a] = will_reset_to(layout["resets"][c][a])
    for g in layout["feedbacks"]:
        if g["o"] == c and "@" not in g["key"]:
            # a getter the derived class adds to the inherited ones
            add_getter(ns, c, g["key"], 0, g.get("ty", "int"), g.get("sann", False))
    return type("Comp_" + c, (base_cls,), ns)


def make_robot(layout, uid):
    comps = layout["comps"]
    classes = {}
    for i, c in enumerate(comps):
        twin = layout.get("sameclass", {}).get(c)
        parent = layout.get("derive", {}).get(c)
        if parent in classes:
            classes[c] = make_derived(c, classes[parent], layout)
            continue
        classes[c] = classes[twin] if twin in classes else make_component(c, layout, uid + i)
    nbase = layout.get("robot_split", 0)       # the first nbase components are declared on a base robot class

    def createObjects(self):
        self.shared = Shared()
        for c in comps:
            if "g" in layout["plain"][c]:
                setattr(self, c + "_g", layout["plain"][c]["g"])

    def mk(name):
        def f(self):
            HOOK(name, "robot")
        f.__name__ = name
        return f
    base_ns = {"__annotations__": {c: classes[c] for c in comps[:nbase]}, "createObjects": createObjects,
               "control_loop_wait_time": layout["period"] / 1e6,
               "use_teleop_in_autonomous": bool(layout["teleAuto"]),
               # how often a swallowed fault is reported to the driver station (0 = every time): never what is done
               "error_report_interval": layout.get("eri", 0.5)}
    for name in ("autonomousInit", "teleopInit", "teleopPeriodic", "disabledInit", "disabledPeriodic",
                 "testInit", "testPeriodic", "robotPeriodic"):
        if name == "robotPeriodic" and not layout.get("rp", True):
            continue        # the default robotPeriodic() stays: it updates the dashboard values (chooser selection)
        base_ns[name] = mk(name)
    if layout.get("tp_partial"):
        # a hook need not be a plain function: functools.partialmethod gives a callable without __name__
        import functools

        def _tp(self, tag):
            HOOK("teleopPeriodic", "robot")
        base_ns["teleopPeriodic"] = functools.partialmethod(_tp, "tp")
    for g in layout["feedbacks"]:
        if g["o"] == "robot":
            add_getter(base_ns, "robot", g["key"], uid, g.get("ty", "int"), g.get("sann", False))
    if layout.get("onexc"):
        # the team overrides the public onException(forceReport=False) hook (to count faults, light an LED, ...)
        def onException(self, forceReport=False):
            Rec.nerr = getattr(Rec, "nerr", 0) + 1
            return MagicRobot.onException(self, forceReport=forceReport)
        base_ns["onException"] = onException
    Base = type("Robot%d_Base" % uid, (MagicRobot,), base_ns)
    return type("Robot%d" % uid, (Base,), {"__annotations__": {c: classes[c] for c in comps[nbase:]}})


MODE_SRC = '''
import sys
_drv = sys.modules["__main__"]


class %(cls)s:
    MODE_NAME = %(name)r
    DEFAULT = %(default)r

    def on_enable(self):
        _drv.HOOK("auto.on_enable", self.MODE_NAME)

    def on_iteration(self, tm):
        _drv.HOOK("auto.on_iteration", self.MODE_NAME, arg=tm)

    def on_disable(self):
        _drv.HOOK("auto.on_disable", self.MODE_NAME)

    def __len__(self):
        return %(length)d          # some modes are falsy objects (empty containers)
'''


def write_auto_package(root, layout):
    for m in [k for k in sys.modules if k == "autonomous" or k.startswith("autonomous.")]:
        del sys.modules[m]
    while root in sys.path:
        sys.path.remove(root)
    shutil.rmtree(root, ignore_errors=True)
    if layout["modes"]:
        pk = os.path.join(root, "autonomous")
        os.makedirs(pk)
        open(os.path.join(pk, "__init__.py"), "w").close()
        for i, name in enumerate(layout["modes"]):
            with open(os.path.join(pk, "mode%d.py" % i), "w") as f:
                f.write(MODE_SRC % {"cls": "Mode%d" % i, "name": name, "default": name == layout["defmode"],
                                    "length": (len(name) + i) % 2})
        sys.path.insert(0, root)
    importlib.invalidate_caches()


# ------------------------------------------------------------------------------------------------
# environment policies
# ------------------------------------------------------------------------------------------------
NOOP = {"raise": False, "w": [], "adv": 0, "ret": 0, "eng": [], "dsw": ""}
DSW_SITES = ("on_disable", "on_enable", "teleopInit", "autonomousInit", "disabledInit", "testInit", "teleopPeriodic",
             "robotPeriodic", "execute", "auto.on_disable")
ENGAGERS = ("teleopPeriodic", "auto.on_iteration", "execute", "disabledPeriodic", "on_enable", "robotPeriodic")
FAULT_SITES = ("on_enable", "on_disable", "execute", "autonomousInit", "teleopInit", "teleopPeriodic",
               "disabledInit", "disabledPeriodic", "testInit", "testPeriodic", "robotPeriodic", "feedback",
               "auto.on_enable", "auto.on_iteration", "auto.on_disable")
WRITERS = ("teleopPeriodic", "auto.on_iteration", "execute", "robotPeriodic", "disabledPeriodic", "on_enable",
           "teleopInit")


class RandomPolicy:
    def __init__(self, rng, layout, fms):
        self.rng = rng
        self.layout = layout
        self.count = {}
        self.fault = {}
        self.fms = fms
        sites = [(k, c) for c in layout["comps"] for k in ("on_enable", "on_disable", "execute")]
        sites += [(k, "robot") for k in FAULT_SITES[3:11]]
        sites += [("feedback:" + g["key"], g["o"]) for g in layout["feedbacks"]]
        sites += [(k, m) for m in layout["modes"] for k in FAULT_SITES[12:]]
        nf = rng.choice([0, 0, 1, 1, 2, 3])
        for _ in range(nf):
            self.fault[rng.choice(sites)] = rng.choice(["all", 1, 2, 3])
        self.attrs = [(c, a) for c in layout["comps"] for a in list(layout["resets"][c]) + list(layout["plain"][c])]
        self.nwaits = rng.randint(5, 14)
        self.overrun = rng.random() < 0.25
        self.cur = "disabled"
        self.ended = False
        # themed histories make rare combinations likely: the same mode entered again and again with a callback of
        # that mode failing every time (FMS attached), or two modes in quick alternation
        self.theme = rng.choice([None, None, None, "repeat", "pingpong", "fmsmid"])
        self.pair = rng.sample(["disabled", "auto", "teleop", "test"], 2)
        if self.theme == "fmsmid":
            # the FMS attaches in the middle of an enabled mode in which some callback fails every time
            self.fms_at = rng.randint(2, 5)
            self.pair = [rng.choice(["teleop", "auto"]), "disabled"]
            fsites = [("feedback:" + g["key"], g["o"]) for g in layout["feedbacks"]]
            fsites += [("execute", c) for c in layout["comps"]] + [("robotPeriodic", "robot"), ("teleopPeriodic", "robot")]
            self.late_fault = rng.choice(fsites)
        if self.theme == "repeat":
            self.pair = [rng.choice(["auto", "auto", "teleop"]), rng.choice(["disabled", "teleop", "test", "disabled"])]
            if self.pair[0] == self.pair[1]:
                self.pair[1] = "disabled"
            self.nwaits = rng.randint(9, 16)
            modes = layout["modes"]
            cands = [(k, m) for m in modes for k in FAULT_SITES[12:]] if self.pair[0] == "auto" and modes else []
            if self.pair[0] == "auto" and layout["defmode"] != "none":
                cands += [(k, layout["defmode"]) for k in FAULT_SITES[12:]] * 4     # the mode that will actually run
            self.force_fms = rng.random() < 0.8
            cands += [(k, c) for c in layout["comps"] for k in ("on_enable", "on_disable")]
            cands += [(k, "robot") for k in ("autonomousInit", "teleopInit", "disabledInit")]
            for _ in range(rng.choice([1, 1, 2])):
                self.fault[rng.choice(cands)] = "all"

    def decide(self, k, o, key):
        rng = self.rng
        sk = (k + (":" + key if k == "feedback" else ""), o)
        n = self.count[sk] = self.count.get(sk, 0) + 1
        f = self.fault.get(sk)
        d = {"raise": f == "all" or f == n, "w": [], "adv": 0, "ret": 0, "eng": [], "dsw": ""}
        sms = self.layout.get("sm", [])
        if sms and k in ENGAGERS and rng.random() < 0.35:
            d["eng"] = [rng.choice(sms)]
        if k in WRITERS and self.attrs and rng.random() < 0.35:
            for _ in range(rng.choice([1, 1, 2])):
                c, a = rng.choice(self.attrs)
                v = rng.randint(1, 9)
                dflt = self.layout["resets"][c].get(a)
                if dflt is not None and rng.random() < 0.3:
                    v = rng.choice({0: [1000, 1003, 1004], 1: [1001, 1002], 5: [1005]}.get(dflt, [v]))
                d["w"].append({"c": c, "a": a, "v": v})
        if self.overrun and k in ("teleopPeriodic", "execute", "robotPeriodic", "feedback") and rng.random() < 0.15:
            P = self.layout["period"]
            d["adv"] = rng.choice([P // 2, P, P + 1000, 3 * P + 7])
        if k == "feedback":
            d["ret"] = rng.randint(0, 99)
        if k in DSW_SITES and rng.random() < 0.03 and not self.ended:
            # the driver station changes its mind in the middle of an iteration / a transition
            m = rng.choice([x for x in ("disabled", "auto", "teleop", "test") if x != self.cur])
            self.cur = m
            d["dsw"] = m
        if k in ("on_enable", "teleopPeriodic", "execute", "auto.on_iteration", "robotPeriodic", "disabledPeriodic") \
                and not self.ended and rng.random() < 0.004:
            d["endc"] = True
            self.ended = True
        return d

    def env_events(self):
        """inputs to deliver while the robot thread is blocked; None = end the competition"""
        rng = self.rng
        self.nwaits -= 1
        if self.nwaits < 0:
            return None
        evs = []
        if self.theme == "fmsmid":
            w = getattr(self, "nw", 0)
            self.nw = w + 1
            if w == 0 and self.fms:
                self.fms = False
                evs.append({"e": "fms", "b": False})
            if w == 1:
                self.cur = self.pair[0]
                evs.append({"e": "ds", "m": self.cur})
            if w == self.fms_at:
                self.fms = True
                evs.append({"e": "fms", "b": True})
                self.fault[self.late_fault] = "all"      # from now on
            return evs
        if getattr(self, "force_fms", False) and not self.fms:
            self.fms = True
            evs.append({"e": "fms", "b": True})
        if self.theme in ("repeat", "pingpong") and rng.random() < 0.55:
            m = self.pair[1] if self.cur == self.pair[0] else self.pair[0]
            self.cur = m
            evs.append({"e": "ds", "m": m})
            if self.theme == "repeat" and self.layout["modes"] and rng.random() < 0.4:
                evs.append({"e": "sel", "s": rng.choice(self.layout["modes"] + ["", ""])})
        elif rng.random() < 0.30:
            m = rng.choice([x for x in ("disabled", "auto", "teleop", "test") if x != self.cur])
            self.cur = m
            evs.append({"e": "ds", "m": m})
        if rng.random() < 0.06:
            self.fms = not self.fms
            evs.append({"e": "fms", "b": self.fms})
        if rng.random() < 0.10:
            evs.append({"e": "sel", "s": rng.choice(self.layout["modes"] + ["bogus", ""])})
        if not self.layout.get("rp", True) and rng.random() < 0.15:
            evs.append({"e": "choose", "m": rng.choice(self.layout["modes"] + ["None", "None"])})
        return evs


class ScriptPolicy:
    def __init__(self, events):
        self.ev = events
        self.i = 0
        self.desync = 0
        self.where = []

    def decide(self, k, o, key):
        while self.i < len(self.ev) and (self.ev[self.i]["e"] in ("wait", "wake", "exit") or self.ev[self.i].get("_used")):
            self.i += 1
        if k == "feedback":
            # the getters of one feedback phase may run in any order
            j = self.i
            while j < len(self.ev) and self.ev[j]["e"] == "cb" and self.ev[j]["k"] == "feedback":
                e = self.ev[j]
                if not e.get("_used") and e["o"] == o and e.get("key", "") == key:
                    e["_used"] = True
                    return {"raise": e["raise"], "w": list(e["w"]), "adv": e["adv"], "ret": e["ret"], "eng": [], "dsw": ""}
                j += 1
            # no entry for this getter (the scripted behaviour ended, e.g. with a fatal fault, before calling it)
            return dict(NOOP, w=[], eng=[])
        if self.i < len(self.ev):
            e = self.ev[self.i]
            if e["e"] == "cb" and e["k"] == k and e["o"] == o and e.get("key", "") == key:
                self.i += 1
                return {"raise": e["raise"], "w": list(e["w"]), "adv": e["adv"], "ret": e["ret"],
                        "eng": list(e.get("eng", [])), "dsw": e.get("dsw", ""), "endc": bool(e.get("endc"))}
            self.desync += 1      # the script has a different event here
            self.where.append({"i": self.i, "script": {x: e[x] for x in e if x in ("e", "k", "o", "key")},
                               "actual": [k, o, key]})
        return dict(NOOP, w=[], eng=[])

    def env_events(self):
        evs = []
        while self.i < len(self.ev) and (self.ev[self.i]["e"] in ("wait",) or self.ev[self.i].get("_used")):
            self.i += 1
        while self.i < len(self.ev) and self.ev[self.i]["e"] in ("ds", "fms", "sel", "end", "choose"):
            e = self.ev[self.i]
            self.i += 1
            evs.append(None if e["e"] == "end" else e)
        if self.i < len(self.ev) and self.ev[self.i]["e"] == "wake":
            self.i += 1
            return evs
        if self.i >= len(self.ev):
            return evs + [None]
        # the script expects a callback here but the robot is waiting: desynchronised, finish
        self.desync += 1
        self.where.append({"i": self.i, "script": self.ev[self.i], "actual": "wait"})
        return evs + [None]


# ------------------------------------------------------------------------------------------------
FB_TYPES = ["int", "int", "int", "none", "float", "bool", "str", "struct", "int[]", "float[]", "bool[]", "str[]", "struct[]"]


def gen_layout(rng, uid):
    n = rng.choice([1, 2, 2, 3, 2, 3, 1, 2, 2, 3, 0])       # (a robot without components is a robot too)
    comps = ["c%d_%d" % (i, uid) for i in range(n)]
    has, resets, plain, inherit, fbs = {}, {}, {}, {}, []
    redeclare, shadow, initassign = {}, {}, {}
    for c in comps:
        has[c] = {k: rng.random() < 0.7 for k in ("setup", "on_enable", "on_disable")}
        nr = rng.choice([0, 1, 1, 2])
        # (a marker may be a private attribute)
        resets[c] = {("_r%d" if rng.random() < 0.2 else "r%d") % j: rng.choice([0, 0, 1, 5]) for j in range(nr)}
        inherit[c] = [a for a in resets[c] if rng.random() < 0.3]
        plain[c] = {"p": rng.randint(10, 19)}
        if rng.random() < 0.4:
            plain[c]["g"] = rng.randint(20, 29)
        redeclare[c] = [a for a in resets[c] if a not in inherit[c] and rng.random() < 0.3]
        initassign[c] = [a for a in resets[c] if rng.random() < 0.25]
        shadow[c] = ["p"] if rng.random() < 0.25 else []
        if rng.random() < 0.5:
            fbs.append({"o": c, "key": rng.choice(["k_%s", "widget_%s", "budget_left_%s"]) % c, "ty": rng.choice(FB_TYPES),
                        "sann": rng.random() < 0.35, "inplace": rng.random() < 0.4, "ovr": rng.random() < 0.25})
            if rng.random() < 0.4:
                # a second getter on the same owner, called after the first (getters run in name order)
                fbs.append({"o": c, "key": "zz_%s" % c, "ty": rng.choice(FB_TYPES + ["none", "none"]),
                            "sann": rng.random() < 0.35})
    sm = [c for c in comps if rng.random() < 0.25]
    for c in sm:
        has[c]["on_enable"] = has[c]["on_disable"] = True     # StateMachine has both
    sameclass = {}
    if n >= 2 and rng.random() < 0.3:
        a, b = rng.sample(comps, 2)
        a, b = sorted((a, b), key=comps.index)
        # b is a second instance of a's class: same callbacks, markers and attributes, no getters of its own
        sameclass[b] = a
        has[b], resets[b], plain[b] = dict(has[a]), dict(resets[a]), dict(plain[a])
        inherit[b], redeclare[b], shadow[b] = list(inherit[a]), list(redeclare[a]), list(shadow[a])
        initassign[b] = list(initassign[a])
        # b publishes the getters of the shared class under its own name (key id '<key>@<b>')
        fbs = [g for g in fbs if g["o"] != b]
        fbs += [dict(g, o=b, key="%s@%s" % (g["key"], b), ovr=False) for g in fbs if g["o"] == a]
        if a in sm and b not in sm:
            sm.append(b)
        if b in sm and a not in sm:
            sm.remove(b)
    derive, derive_redecl = {}, {}
    if n >= 2 and not sameclass and rng.random() < 0.3:
        a, b = rng.sample(comps, 2)
        a, b = sorted((a, b), key=comps.index)
        # b's class derives from a's (both are components): b has a's callbacks, markers and attributes, one more
        # marker of its own and possibly other defaults for re-declared ones; neither has getters
        derive[b] = a
        has[b], plain[b] = dict(has[a]), dict(plain[a])
        resets[b] = dict(resets[a])
        derive_redecl[b] = [x for x in resets[a] if x not in shadow[a] and rng.random() < 0.5]
        for x in derive_redecl[b]:
            resets[b][x] = resets[a][x] + 2
        resets[b]["rx"] = rng.choice([0, 1, 5])
        inherit[b], redeclare[b], shadow[b], initassign[b] = [], [], list(shadow[a]), list(initassign[a])
        # b inherits a's getters (published under b's name) and may add one of its own
        fbs = [g for g in fbs if g["o"] != b and not (g["o"] == a and g.get("ovr"))]
        fbs += [dict(g, o=b, key="%s@%s" % (g["key"], b)) for g in fbs if g["o"] == a]
        if rng.random() < 0.6:
            fbs.append({"o": b, "key": "own_%s" % b, "ty": rng.choice(FB_TYPES), "sann": False})
        if a in sm and b not in sm:
            sm.append(b)
        if b in sm and a not in sm:
            sm.remove(b)
    if rng.random() < 0.4:
        fbs.append({"o": "robot", "key": rng.choice(["rk_%d", "target_%d"]) % uid, "ty": rng.choice(FB_TYPES),
                    "sann": rng.random() < 0.35})
        if rng.random() < 0.4:
            fbs.append({"o": "robot", "key": "zz_%d" % uid, "ty": rng.choice(FB_TYPES + ["none", "none"]), "sann": False})
    nm = rng.choice([0, 1, 1, 2])
    modes = ["m%d_%d" % (i, uid) for i in range(nm)]
    defmode = rng.choice(modes + ["none"]) if modes else "none"
    return {"comps": comps, "has": has, "resets": resets, "plain": plain, "feedbacks": fbs,
            "teleAuto": rng.random() < 0.5, "modes": modes, "defmode": defmode,
            "period": rng.choice([20000, 20000, 5000, 15625]),
            "inherit": inherit, "redeclare": redeclare, "shadow": shadow, "sm": sm, "sameclass": sameclass,
            "initassign": initassign, "derive": derive, "derive_redecl": derive_redecl,
            "rp": rng.random() < 0.7, "onexc": rng.random() < 0.3, "eri": rng.choice([0.5, 0.5, 0, 0.001, 3]),
            "sharedmarker": {c: rng.random() < 0.3 for c in comps},
            "valueeq": {c: rng.random() < 0.5 for c in comps}, "tp_partial": rng.random() < 0.25,
            "hookform": {c: {k: rng.choice(["method", "method", "static", "class", "attr"])
                             for k in ("setup", "on_enable", "on_disable")}
                         for c in comps if c not in sameclass and c not in sameclass.values()
                         and c not in derive and c not in derive.values() and rng.random() < 0.4},
            "robot_split": rng.randint(0, n)}


_dis = 0


def apply_env(e):
    if e["e"] == "ds":
        m = e["m"]
        DS.setEnabled(m != "disabled")
        if m == "disabled":
            # a disabled robot with autonomous or test still selected on the driver station is disabled all the same
            global _dis
            _dis += 1
            DS.setAutonomous(_dis % 3 == 1)
            DS.setTest(_dis % 3 == 2)
        else:
            DS.setAutonomous(m == "auto")
            DS.setTest(m == "test")
        DS.notifyNewData()
    elif e["e"] == "fms":
        DS.setFmsAttached(bool(e["b"]))
        DS.notifyNewData()
    elif e["e"] == "sel":
        wpilib.SmartDashboard.putString("Auto Selector", e["s"])
    elif e["e"] == "choose":
        # the chooser widget: only the NetworkTables value changes; the robot fetches it in SmartDashboard.updateValues()
        Rec.inst.getEntry("/SmartDashboard/Autonomous Mode/selected").setString(e["m"])


def run_history(tid, layout, fms, policy_factory, scratch):
    Rec.log = []
    Rec.overflow = False
    Rec.layout = layout
    Rec.waiting.clear()
    Rec.go.clear()
    inst = Rec.inst = ntcore.NetworkTableInstance.getDefault()
    # FPGA time is never restarted inside a process: NetworkTables drops writes whose timestamp is older
    # than the topic's current value.  Times are logged relative to the start of the history.
    hs.stepTimingAsync(1000)
    Rec.t0 = wpilib.RobotController.getFPGATime()
    inst.getEntry("/robot/mode").setString("")
    wpilib.SmartDashboard.putString("Auto Selector", "")
    # wpilib's chooser keeps the NetworkTables 'selected' value across choosers: make the start state explicit
    inst.getEntry("/SmartDashboard/Autonomous Mode/selected").setString(
        layout["defmode"] if layout["defmode"] != "none" else "None")
    write_auto_package(scratch, layout)
    DS.resetData()
    DS.setDsAttached(True)
    DS.setFmsAttached(bool(fms))
    DS.setEnabled(False)
    DS.setAutonomous(False)
    DS.setTest(False)
    DS.notifyNewData()
    wpilib.DriverStation.refreshData()
    pol = Rec.policy = policy_factory(layout, fms)
    Rec.ended_by_cb = False
    R = make_robot(layout, tid)
    exc = []
    r = Rec.robot = R()

    def th():
        try:
            r.startCompetition()
        except Hang:
            exc.append("HANG")
        except BaseException as e:  # noqa
            exc.append("%s: %s" % (type(e).__name__, e))
    t = threading.Thread(target=th, daemon=True)
    t.start()
    ended = False
    while True:
        t0 = time.time()
        while not Rec.waiting.is_set() and t.is_alive():
            if Rec.overflow or time.time() - t0 > 30:
                raise Hang("robot thread neither waiting nor finished")
            time.sleep(0.00005)
        if not Rec.waiting.is_set():
            break
        # the robot thread is blocked: observe, deliver inputs, advance the clock to the alarm
        fb, fbt = {}, {}
        for g in layout["feedbacks"]:
            path = ("/robot/" if g["o"] == "robot" else "/components/%s/" % g["o"]) + g["key"].split("@")[0]
            fb[g["key"]], fbt[g["key"]] = read_feedback(inst, path, g.get("ty", "int"))
        Rec.log[-1]["fb"] = fb
        Rec.log[-1]["fbt"] = fbt
        Rec.log[-1]["t"] = wpilib.RobotController.getFPGATime() - Rec.t0
        ended = ended or Rec.ended_by_cb
        if ended and isinstance(pol, ScriptPolicy):
            evs = [e for e in pol.env_events() if e is not None]      # a script may go on after endCompetition()
        else:
            evs = [None] if ended else pol.env_events()
        if evs is None:
            evs = [None]
        for e in evs:
            if e is None:
                if not ended:
                    Rec.log.append({"e": "end"})
                    try:
                        r.endCompetition()
                    except Exception:  # noqa - endCompetition() calls no user code; if it does, the callbacks are in the log
                        pass
                    ended = True
            else:
                Rec.log.append(dict(e))
                apply_env(e)
        nxt = hs.getNextNotifierTimeout()
        now = wpilib.RobotController.getFPGATime()
        if nxt > now:
            hs.stepTimingAsync(nxt - now)
        Rec.waiting.clear()
        Rec.go.set()
    t.join(10)
    if t.is_alive() or "HANG" in exc:
        raise Hang("robot thread did not finish")
    steps = [{"in": e} for e in Rec.log] + [{"in": {"e": "exit", "crashed": bool(exc)}}]
    hs.resetGlobalHandles()
    out = {"id": tid, "shape": layout, "fms": bool(fms), "steps": steps}
    if exc:
        out["exception"] = exc[0]
    if isinstance(pol, ScriptPolicy) and pol.desync:
        out["desync"] = pol.desync
        out["desync_where"] = pol.where[:3]
    return out


def hang_trace(tid, layout, fms):
    """the robot thread neither blocked in NotifierDelay.wait() nor finished: an observation, not a harness failure.
    The events recorded up to a bound, then 'hang'."""
    evs = list(Rec.log[:400])
    return {"id": tid, "shape": layout, "fms": bool(fms), "hang": True,
            "steps": [{"in": e} for e in evs] + [{"in": {"e": "hang"}}]}


def main():
    ap = argparse.ArgumentParser()
    ap.add_argument("--out", required=True)
    ap.add_argument("--seed", type=int, default=0)
    ap.add_argument("--n", type=int, default=50)
    ap.add_argument("--first-id", type=int, default=1)
    ap.add_argument("--scripts")
    a = ap.parse_args()
    scratch = os.path.join(os.getcwd(), "autopkg")
    hung = None
    hs.pauseTiming()
    hs.restartTiming()
    traces = []
    if a.scripts:
        for j in json.load(open(a.scripts)):
            try:
                traces.append(run_history(j["id"], j["shape"], j["fms"],
                                          lambda layout, fms, j=j: ScriptPolicy(j["events"]), scratch))
            except Hang:
                hung = hang_trace(j["id"], j["shape"], j["fms"])
                break
    else:
        rng = random.Random(a.seed)
        for i in range(a.n):
            tid = a.first_id + i
            layout = gen_layout(rng, tid)
            fms = rng.random() < 0.6
            try:
                traces.append(run_history(tid, layout, fms, lambda layout, fms: RandomPolicy(rng, layout, fms), scratch))
            except Hang:
                hung = hang_trace(tid, layout, fms)
                break
    if a.scripts and hung is None:
        pass
    if hung is not None:
        traces.append(hung)
    with open(a.out, "w") as f:
        json.dump(traces, f)
    shutil.rmtree(scratch, ignore_errors=True)
    if hung is not None:
        # a robot thread that never blocks cannot be stopped: leave the process the hard way
        sys.stdout.flush()
        os._exit(0)


if __name__ == "__main__":
    main()
