"""Drive AutonomousModeSelector.start()/periodic()/disable() with a real package of two modes and record
traces for specs/Selector.tla.

usage: sel_driver.py --out FILE --seed S --n N [--first-id K]   |   sel_driver.py --out FILE --scripts FILE
"""
import argparse
import json
import logging
import os
import random
import shutil
import sys

REPO = os.environ.get("VERIF_REPO", "/repo")
sys.path.insert(0, REPO)
import hal  # noqa: E402
import hal.simulation as hs  # noqa: E402
import ntcore  # noqa: E402
import wpilib  # noqa: E402
import wpilib.simulation  # noqa: E402
from robotpy_ext.autonomous import AutonomousModeSelector  # noqa: E402

logging.disable(logging.CRITICAL)
LOG = []
DS = wpilib.simulation.DriverStationSim
NOALARM = 18446744073709551615
_real_wait = hal.waitForNotifierAlarm


def _wait_wrapper(handle):
    """single-threaded: advance the simulated clock to the armed alarm, then let the real call return"""
    nxt = hs.getNextNotifierTimeout()
    now = wpilib.RobotController.getFPGATime()
    if nxt == NOALARM:
        return 0
    if nxt > now:
        hs.stepTimingAsync(nxt - now)
    return _real_wait(handle)


hal.waitForNotifierAlarm = _wait_wrapper


class RunStuck(Exception):
    pass


def HOOK(m, k, t=None):
    e = {"m": m, "k": k}
    if t is not None:
        e["t"] = int(round(t * 1e6))
    LOG.append(e)


SRC = '''
import sys
_drv = sys.modules["__main__"]


class Mode%(i)d:
    MODE_NAME = "m%(i)d"
    DEFAULT = False

    def on_enable(self):
        _drv.HOOK(self.MODE_NAME, "on_enable")

    def on_iteration(self, tm):
        _drv.HOOK(self.MODE_NAME, "on_iteration", tm)
        # (whatever a mode returns means nothing to the selector)
        return (False, None, 0, True, "done")[int(tm * 1000) %% 5]

    def on_disable(self):
        _drv.HOOK(self.MODE_NAME, "on_disable")

    def __len__(self):
        # mode 2 is an object that is falsy (a mode that is also a - currently empty - container of steps)
        return 0 if %(i)d == 2 else 1
'''


def run_trace(tid, shape, events, pkg, classes):
    inst = ntcore.NetworkTableInstance.getDefault()
    for name, cls in classes.items():
        cls.DEFAULT = (name == shape["defmode"])
    wpilib.SmartDashboard.putString("Auto Selector", "")
    # wpilib's chooser keeps the NetworkTables 'selected' value across choosers: make the start state explicit
    inst.getEntry("/SmartDashboard/Autonomous Mode/selected").setString(
        shape["defmode"] if shape["defmode"] != "none" else "None")
    try:
        sel = AutonomousModeSelector(pkg)
    except Exception as e:  # noqa
        return {"id": tid, "shape": shape, "steps": [{"in": {"e": "raised"}, "out": {"cb": [], "err": "%s: %s" % (type(e).__name__, e)}}]}
    wpilib.SmartDashboard.updateValues()
    steps = []

    def simple(ev):
        k = ev["e"]
        if k == "tick":
            hs.stepTimingAsync(ev["d"])
        elif k == "str":
            wpilib.SmartDashboard.putString("Auto Selector", ev["s"])
        elif k == "choose":
            inst.getEntry("/SmartDashboard/Autonomous Mode/selected").setString(ev["s"])
            wpilib.SmartDashboard.updateValues()
        elif k == "start":
            sel.start()
        elif k == "periodic":
            sel.periodic()
        elif k == "disable":
            sel.disable()
        elif k == "endcomp":
            sel.endCompetition()

    events = [{k: v for k, v in ev.items() if k != "x"} for ev in events]
    i = 0
    while i < len(events):
        ev = events[i]
        del LOG[:]
        if ev.get("via") == "run" and ev["e"] == "start":
            # the whole autonomous period through run(): start = timer + on_enable, one 'periodic' per loop iteration,
            # the events inside an iteration are performed by iter_fn, 'tick' is NotifierDelay.wait(), the closing
            # 'disable' is the one run() makes when the driver station leaves autonomous
            j = i + 1
            while j < len(events) and not (events[j].get("via") == "run" and events[j].get("last")):
                j += 1
            block = events[i:j + 1]
            i = j + 1
            try:
                run_block(sel, block, steps, simple)
            except Exception as e:  # noqa
                steps.append({"in": {"e": "raised"}, "out": {"cb": list(LOG), "err": "%s: %s" % (type(e).__name__, e)}})
                break
            continue
        i += 1
        try:
            simple(ev)
        except Exception as e:  # noqa
            LOG.append({"m": "<raised>", "k": "%s: %s" % (type(e).__name__, e)})
        steps.append({"in": ev, "out": {"cb": list(LOG)}})
    return {"id": tid, "shape": shape, "steps": steps}


def run_block(sel, block, steps, simple):
    iters = []            # [[periodic event, inner events..., tick event]]
    for ev in block[1:-1]:
        if ev["e"] == "periodic":
            iters.append([ev])
        else:
            iters[-1].append(ev)
    period = next(ev["d"] for ev in block if ev["e"] == "tick")
    state = {"n": 0}

    def cut():
        out = list(LOG)
        del LOG[:]
        return out

    def fn():
        n = state["n"]
        state["n"] += 1
        if n >= len(iters):
            raise RunStuck("run() keeps iterating although the driver station left autonomous mode")
        cbs = cut()
        if n > 0:
            steps.append({"in": dict(state["tick"], d=wpilib.RobotController.getFPGATime() - state["t"]), "out": {"cb": []}})
        if n == 0:
            k = 0
            while k < len(cbs) and cbs[k]["k"] == "on_enable":
                k += 1
            steps.append({"in": block[0], "out": {"cb": cbs[:k]}})
            cbs = cbs[k:]
        steps.append({"in": iters[n][0], "out": {"cb": cbs}})
        for ev in iters[n][1:-1]:
            simple(ev)
            steps.append({"in": ev, "out": {"cb": cut()}})
        if n == len(iters) - 1 and not any(ev["e"] == "endcomp" for ev in iters[n]):
            # (after endCompetition() the loop ends by itself)
            DS.setEnabled(False)
            DS.notifyNewData()
        state["t"] = wpilib.RobotController.getFPGATime()
        state["tick"] = iters[n][-1]

    DS.setDsAttached(True)
    DS.setAutonomous(True)
    DS.setEnabled(True)
    DS.notifyNewData()
    wpilib.DriverStation.refreshData()
    try:
        sel.run(control_loop_wait_time=period / 1e6, iter_fn=fn)
    finally:
        DS.setEnabled(False)
        DS.setAutonomous(False)
        DS.notifyNewData()
        wpilib.DriverStation.refreshData()
    # what happened after the last iter_fn call: the wait, then run()'s own disable()
    if state["n"] == 0:
        raise RunStuck("run() returned without a single iteration")
    tick = dict(state["tick"], d=wpilib.RobotController.getFPGATime() - state["t"])
    steps.append({"in": tick, "out": {"cb": []}})
    steps.append({"in": block[-1], "out": {"cb": cut()}})


def run_block_events(rng, endcomp=False):
    """one autonomous period through run(): see run_block()"""
    p = rng.choice([20000, 20000, 5000, 15625])
    evs = [{"e": "start", "via": "run"}]
    n = rng.choice([1, 2, 4, 7])
    for i in range(n):
        evs.append({"e": "periodic", "via": "run"})
        r = rng.random()
        if endcomp and i == n - 1:
            evs.append({"e": "endcomp", "via": "run"})       # endCompetition() from iter_fn / another thread: last iteration
        elif r < 0.2:
            evs.append({"e": "disable", "via": "run"})          # iter_fn (or the mode itself) calls disable() mid-run
        elif r < 0.3:
            evs.append({"e": "str", "s": rng.choice(["", "m1", "m2"]), "via": "run"})
        elif r < 0.4:
            evs.append({"e": "choose", "s": rng.choice(["m1", "m2", "None"]), "via": "run"})
        evs.append({"e": "tick", "d": p, "via": "run"})
    evs.append({"e": "disable", "via": "run", "last": True})
    return evs


def random_events(rng):
    evs = []
    active = False
    started = False
    for _ in range(rng.choice([10, 25, 50])):
        r = rng.random()
        if rng.random() < 0.08:
            evs += run_block_events(rng)
            active = False
            continue
        if r < 0.15:
            evs.append({"e": "tick", "d": rng.choice([0, 5000, 20000, 20000, 100000])})
        elif r < 0.25:
            evs.append({"e": "str", "s": rng.choice(["", "m1", "m2", "bogus", "None", "m1 ", " m2", "M1"])})
        elif r < 0.35:
            evs.append({"e": "choose", "s": rng.choice(["m1", "m2", "None", "bogus"])})
        elif r < 0.5 and (not active or rng.random() < 0.25):
            evs.append({"e": "start"})
            active = started = True
        elif r < 0.6:
            evs.append({"e": "disable"})
            active = False
        elif started:
            evs.append({"e": "periodic"})
            if rng.random() < 0.7:
                evs.append({"e": "tick", "d": 20000})
    # the program is shut down while a mode may be enabled: the mode still gets its on_disable()
    r = rng.random()
    if r < 0.15:
        evs += run_block_events(rng, endcomp=True)
    elif r < 0.3:
        evs += [{"e": "start"}, {"e": "periodic"}, {"e": "endcomp"}] + ([{"e": "periodic"}] if r < 0.2 else []) + [{"e": "disable"}]
    return evs


def main():
    ap = argparse.ArgumentParser()
    ap.add_argument("--out", required=True)
    ap.add_argument("--seed", type=int, default=0)
    ap.add_argument("--n", type=int, default=100)
    ap.add_argument("--first-id", type=int, default=1)
    ap.add_argument("--scripts")
    a = ap.parse_args()
    hs.pauseTiming()
    root = os.path.join(os.getcwd(), "pkgs")
    pkg = "lifepkg_%d" % os.getpid()
    os.makedirs(os.path.join(root, pkg))
    open(os.path.join(root, pkg, "__init__.py"), "w").close()
    for i in (1, 2):
        with open(os.path.join(root, pkg, "mode%d.py" % i), "w") as f:
            f.write(SRC % {"i": i})
    sys.path.insert(0, root)
    import importlib
    classes = {"m%d" % i: getattr(importlib.import_module("%s.mode%d" % (pkg, i)), "Mode%d" % i) for i in (1, 2)}
    traces = []
    if a.scripts:
        for j in json.load(open(a.scripts)):
            traces.append(run_trace(j["id"], j["shape"], j["events"], pkg, classes))
    else:
        rng = random.Random(a.seed)
        for i in range(a.n):
            shape = {"modes": ["m1", "m2"], "defmode": rng.choice(["m1", "m2", "none"])}
            traces.append(run_trace(a.first_id + i, shape, random_events(rng), pkg, classes))
    json.dump(traces, open(a.out, "w"))
    shutil.rmtree(root, ignore_errors=True)


if __name__ == "__main__":
    main()
