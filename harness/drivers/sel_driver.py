"""Drive AutonomousModeSelector.start()/periodic()/disable() with a real package of two modes and record
traces for specs/Selector.tla.

usage: sel_driver.py --out FILE --seed S --n N [--first-id K]   |   sel_driver.py --out FILE --scripts FILE
"""
import argparse
import json
import logging
import os
import random
import shutil
import sys

REPO = os.environ.get("VERIF_REPO", "/repo")
sys.path.insert(0, REPO)
import hal.simulation as hs  # noqa: E402
import ntcore  # noqa: E402
import wpilib  # noqa: E402
from robotpy_ext.autonomous import AutonomousModeSelector  # noqa: E402

logging.disable(logging.CRITICAL)
LOG = []


def HOOK(m, k, t=None):
    e = {"m": m, "k": k}
    if t is not None:
        e["t"] = int(round(t * 1e6))
    LOG.append(e)


SRC = '''
import sys
_drv = sys.modules["__main__"]


class Mode%(i)d:
    MODE_NAME = "m%(i)d"
    DEFAULT = False

    def on_enable(self):
        _drv.HOOK(self.MODE_NAME, "on_enable")

    def on_iteration(self, tm):
        _drv.HOOK(self.MODE_NAME, "on_iteration", tm)

    def on_disable(self):
        _drv.HOOK(self.MODE_NAME, "on_disable")
'''


def run_trace(tid, shape, events, pkg, classes):
    inst = ntcore.NetworkTableInstance.getDefault()
    for name, cls in classes.items():
        cls.DEFAULT = (name == shape["defmode"])
    wpilib.SmartDashboard.putString("Auto Selector", "")
    # wpilib's chooser keeps the NetworkTables 'selected' value across choosers: make the start state explicit
    inst.getEntry("/SmartDashboard/Autonomous Mode/selected").setString(
        shape["defmode"] if shape["defmode"] != "none" else "None")
    try:
        sel = AutonomousModeSelector(pkg)
    except Exception as e:  # noqa
        return {"id": tid, "shape": shape, "steps": [{"in": {"e": "raised"}, "out": {"cb": [], "err": "%s: %s" % (type(e).__name__, e)}}]}
    wpilib.SmartDashboard.updateValues()
    steps = []
    for ev in events:
        ev = {k: v for k, v in ev.items() if k != "x"}
        del LOG[:]
        k = ev["e"]
        try:
            if k == "tick":
                hs.stepTimingAsync(ev["d"])
            elif k == "str":
                wpilib.SmartDashboard.putString("Auto Selector", ev["s"])
            elif k == "choose":
                inst.getEntry("/SmartDashboard/Autonomous Mode/selected").setString(ev["s"])
                wpilib.SmartDashboard.updateValues()
            elif k == "start":
                sel.start()
            elif k == "periodic":
                sel.periodic()
            elif k == "disable":
                sel.disable()
        except Exception as e:  # noqa
            LOG.append({"m": "<raised>", "k": "%s: %s" % (type(e).__name__, e)})
        steps.append({"in": ev, "out": {"cb": list(LOG)}})
    return {"id": tid, "shape": shape, "steps": steps}


def random_events(rng):
    evs = []
    active = False
    started = False
    for _ in range(rng.choice([10, 25, 50])):
        r = rng.random()
        if r < 0.15:
            evs.append({"e": "tick", "d": rng.choice([0, 5000, 20000, 20000, 100000])})
        elif r < 0.25:
            evs.append({"e": "str", "s": rng.choice(["", "m1", "m2", "bogus", "None"])})
        elif r < 0.35:
            evs.append({"e": "choose", "s": rng.choice(["m1", "m2", "None", "bogus"])})
        elif r < 0.5 and (not active or rng.random() < 0.25):
            evs.append({"e": "start"})
            active = started = True
        elif r < 0.6:
            evs.append({"e": "disable"})
            active = False
        elif started:
            evs.append({"e": "periodic"})
            if rng.random() < 0.7:
                evs.append({"e": "tick", "d": 20000})
    return evs


def main():
    ap = argparse.ArgumentParser()
    ap.add_argument("--out", required=True)
    ap.add_argument("--seed", type=int, default=0)
    ap.add_argument("--n", type=int, default=100)
    ap.add_argument("--first-id", type=int, default=1)
    ap.add_argument("--scripts")
    a = ap.parse_args()
    hs.pauseTiming()
    root = os.path.join(os.getcwd(), "pkgs")
    pkg = "lifepkg_%d" % os.getpid()
    os.makedirs(os.path.join(root, pkg))
    open(os.path.join(root, pkg, "__init__.py"), "w").close()
    for i in (1, 2):
        with open(os.path.join(root, pkg, "mode%d.py" % i), "w") as f:
            f.write(SRC % {"i": i})
    sys.path.insert(0, root)
    import importlib
    classes = {"m%d" % i: getattr(importlib.import_module("%s.mode%d" % (pkg, i)), "Mode%d" % i) for i in (1, 2)}
    traces = []
    if a.scripts:
        for j in json.load(open(a.scripts)):
            traces.append(run_trace(j["id"], j["shape"], j["events"], pkg, classes))
    else:
        rng = random.Random(a.seed)
        for i in range(a.n):
            shape = {"modes": ["m1", "m2"], "defmode": rng.choice(["m1", "m2", "none"])}
            traces.append(run_trace(a.first_id + i, shape, random_events(rng), pkg, classes))
    json.dump(traces, open(a.out, "w"))
    shutil.rmtree(root, ignore_errors=True)


if __name__ == "__main__":
    main()
