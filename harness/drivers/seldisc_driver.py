"""Write the package layouts enumerated by specs/SelectorDisc.tla to disk and load them with the real
AutonomousModeSelector.

usage: seldisc_driver.py --cases FILE --out FILE
"""
import argparse
import importlib
import json
import logging
import os
import shutil
import sys

REPO = os.environ.get("VERIF_REPO", "/repo")
sys.path.insert(0, REPO)
import ntcore  # noqa: E402
import wpilib  # noqa: E402
import wpilib.simulation  # noqa: E402
from robotpy_ext.autonomous import AutonomousModeSelector  # noqa: E402

logging.disable(logging.CRITICAL)
DS = wpilib.simulation.DriverStationSim
CALLS = {}


def CTOR(m, c):
    CALLS[(m, c)] = CALLS.get((m, c), 0) + 1


CLS = '''
class Cls_%(m)d_%(c)d:
%(attrs)s
    def __init__(self):
        _drv.CTOR(%(m)d, %(c)d)
        self.where = [%(m)d, %(c)d]
%(fail)s
    def on_enable(self):
        pass

    def on_iteration(self, tm):
        pass

    def on_disable(self):
        pass
'''


def write_pkg(root, name, case, namespace=False):
    pk = os.path.join(root, name)
    os.makedirs(pk)
    pk2 = pk
    if namespace:
        # an implicit namespace package (no __init__.py) whose modules are spread over two sys.path entries
        pk2 = os.path.join(root + "2", name)
        os.makedirs(pk2)
    else:
        open(os.path.join(pk, "__init__.py"), "w").close()
    for i, mod in enumerate(case["mods"], start=1):
        src = ['import sys', '_drv = sys.modules["__main__"]', '']
        if (i + len(case["mods"])) % 2 == 0:
            src.append('__all__ = []        # what "from module import *" exports is of no concern to the selector')
        if mod["imp"] == "fails":
            src.append('raise RuntimeError("this module fails to import")')
        for j, c in enumerate(mod["classes"], start=1):
            attrs = []
            if c["name"] != "none":
                attrs.append("    MODE_NAME = %r" % c["name"])
            if c["dis"]:
                attrs.append("    DISABLED = True")
            elif (i + j) % 2:
                attrs.append("    DISABLED = False")
            if c["def"]:
                attrs.append("    DEFAULT = True")
            if not attrs:
                attrs.append("    pass")
            body = CLS % {"m": i, "c": j, "attrs": "\n".join(attrs),
                          "fail": '        raise RuntimeError("constructor fails")\n' if c["ctor"] == "fails" else ""}
            if (2 * i + j) % 3 == 0:
                # the class lives in a library module outside the package and is imported into the package module:
                # it is "found in the module" all the same
                lib = "vlib_%s_%d_%d" % (name, i, j)
                with open(os.path.join(root, lib + ".py"), "w") as f:
                    f.write("\n".join(['import sys', '_drv = sys.modules["__main__"]', '', body]) + "\n")
                src.append("from %s import Cls_%d_%d" % (lib, i, j))
            else:
                src.append(body)
        with open(os.path.join(pk if i % 2 else pk2, "mod%d.py" % i), "w") as f:
            f.write("\n".join(src) + "\n")


def run_case(root, idx, case):
    name = "vpkg_%d_%d" % (os.getpid(), idx)
    CALLS.clear()
    if case["pkg"] == "present":
        write_pkg(root, name, case, namespace=(idx % 4 == 3))
    importlib.invalidate_caches()
    DS.setFmsAttached(bool(case["fms"]))
    DS.notifyNewData()
    wpilib.DriverStation.refreshData()
    out = {}
    try:
        sel = AutonomousModeSelector(name)
        wpilib.SmartDashboard.updateValues()
        inst = ntcore.NetworkTableInstance.getDefault()
        out = {"raises": False, "modes": sorted(sel.modes.keys()),
               "options": sorted(inst.getEntry("/SmartDashboard/Autonomous Mode/options").getStringArray([])),
               "default": inst.getEntry("/SmartDashboard/Autonomous Mode/default").getString("<unset>"),
               "autolist": sorted(inst.getEntry("/SmartDashboard/Auto List").getStringArray([])),
               "mode_names": sorted(getattr(v, "MODE_NAME", "?") for v in sel.modes.values())}
        d = sel.modes.get(out["default"])
        out["default_cls"] = None if out["default"] == "None" else (getattr(d, "where", "?") if d is not None else "?")
    except Exception as e:  # noqa
        out = {"raises": True, "error": "%s: %s" % (type(e).__name__, str(e)[:120])}
    out["calls"] = [{"m": m, "c": c, "n": n} for (m, c), n in sorted(CALLS.items())]
    for k in [k for k in sys.modules if k == name or k.startswith(name + ".") or k.startswith("vlib_" + name)]:
        del sys.modules[k]
    shutil.rmtree(os.path.join(root, name), ignore_errors=True)
    shutil.rmtree(os.path.join(root + "2", name), ignore_errors=True)
    for fn in os.listdir(root):
        if fn.startswith("vlib_" + name):
            os.remove(os.path.join(root, fn))
    return out


def main():
    ap = argparse.ArgumentParser()
    ap.add_argument("--cases", required=True)
    ap.add_argument("--out", required=True)
    a = ap.parse_args()
    root = os.path.join(os.getcwd(), "pkgs")
    os.makedirs(root, exist_ok=True)
    sys.path.insert(0, root)
    os.makedirs(root + "2", exist_ok=True)
    sys.path.insert(1, root + "2")
    sys.dont_write_bytecode = True
    DS.setDsAttached(True)
    out = [run_case(root, i, c) for i, c in enumerate(json.load(open(a.cases)))]
    json.dump(out, open(a.out, "w"))
    shutil.rmtree(root, ignore_errors=True)
    shutil.rmtree(root + "2", ignore_errors=True)


if __name__ == "__main__":
    main()
