"""Drive the real magicbot.StateMachine / AutonomousStateMachine and record (input, observation)
traces in the event format of specs/MagicSM.tla.

Runs under /venv/bin/python with the repository under test first on sys.path (VERIF_REPO).
Public API and user callbacks only: no private attribute is read.

usage: sm_driver.py --out FILE --seed S --n N [--auto 0|1|mix] [--first-id K]     (random histories)
       sm_driver.py --out FILE --scripts FILE                                      (scripted inputs)
"""
import argparse
import itertools
import json
import logging
import os
import random
import sys

REPO = os.environ.get("VERIF_REPO", "/repo")
sys.path.insert(0, REPO)

import hal.simulation as hs  # noqa: E402
import ntcore  # noqa: E402
import wpilib  # noqa: E402
from magicbot.magic_tunable import setup_tunables  # noqa: E402
from magicbot.state_machine import (  # noqa: E402
    AutonomousStateMachine, StateMachine, default_state, state, timed_state)

TICK_US = 15625
UNOBS = -1000000
BADNUM = -777777
PARAMS = ("tm", "state_tm", "initial_call")
ALL_SIGS = [list(p) for k in range(4) for p in itertools.permutations(PARAMS, k)]  # 16 ordered subsets


class ClockError(Exception):
    pass


class InjectedFault(Exception):
    """raised by a generated state function when the script says so"""


def ticks(x):
    v = x * 64
    r = round(v)
    if v != r:
        return BADNUM
    return int(r)


def gen_shape(rng, auto):
    k = rng.choice([1, 2, 2, 3, 3, 4, 5])
    # a state may carry a leading underscore (only names of StateMachine attributes are forbidden)
    names = [("_s%d" if rng.random() < 0.15 else "s%d") % i for i in range(k)]
    has_default = rng.random() < 0.4
    states = list(names)
    default = "none"
    if has_default:
        default = "dflt"
        states.append(default)
    first = rng.choice(names)
    durOf, nextOf, mf = {}, {}, []
    for s in names:
        if rng.random() < 0.55:
            durOf[s] = rng.choice([0, 1, 2, 3, 5, 8, 64, 128])
            nextOf[s] = rng.choice(["none"] + names) if rng.random() < 0.75 else "none"
        else:
            durOf[s] = -1
            nextOf[s] = "none"
        if rng.random() < 0.25:
            mf.append(s)
    if has_default:
        durOf[default] = -1
        nextOf[default] = "none"
    shape = {"states": states, "first": first, "default": default, "durOf": durOf, "nextOf": nextOf,
             "mf": mf, "auto": bool(auto)}
    # conformance-only details (not part of the TLA+ shape)
    sigs = {s: rng.choice(ALL_SIGS) for s in states}
    nlayers = rng.choice([1, 1, 2, 3])
    layer = {s: rng.randrange(nlayers) for s in states}
    # overridden states: a base-class variant (never to be called) exists in a lower layer
    overridden = [s for s in states if layer[s] > 0 and rng.random() < 0.4]
    byobj = rng.random() < 0.3    # pass state objects instead of names to engage/next_state
    def pick_basevar(s):
        opts = ["same", "otherdur", "fliptimed", "flipmf"]
        if s != first:
            opts += ["flipfirst", "asdefault"]
        return rng.choice(opts)
    extra = {"sigs": sigs, "layer": layer, "nlayers": nlayers, "overridden": overridden, "byobj": byobj,
             "twin": rng.random() < 0.35,
             "basevar": {s: pick_basevar(s) for s in overridden if s != default},
             # three layers may form a diamond A; B(A); C(A); D(B, C): "side" says where a middle-layer member lives
             "hier": "diamond" if nlayers == 3 and rng.random() < 0.5 else "linear",
             "side": {s: rng.choice(["B", "C"]) for s in states}}
    return shape, extra


def default_extra(shape):
    return {"sigs": {s: list(PARAMS) for s in shape["states"]}, "layer": {s: 0 for s in shape["states"]},
            "nlayers": 1, "overridden": [], "byobj": False}


_uid = itertools.count()
_uid2 = itertools.count()


class Machine:
    """One generated StateMachine subclass instance plus the recorder."""

    def __init__(self, shape, extra):
        self.shape = shape
        self.extra = extra
        self.steps = []
        self.cb = []
        self.pending = None
        self.depth = 0
        self.script = None     # ScriptSource or RandomSource
        self.wrong = False
        uid = next(_uid)
        self.name = "m%d_%d" % (os.getpid(), uid)
        drv = self

        def _rec(self_, name, tag, kw):
            if self_ is drv.sm:          # a second instance of the class (see twin) is not the one observed
                drv.on_call(name, tag, kw)

        def mkfn(name, params, tag):
            # (in every fourth machine the last argument of each state function has a default value, which the machine
            #  must never leave in place: "def s(self, tm, initial_call=False)")
            decl = ["%s" % p for p in params]
            if decl and uid % 4 == 2:
                decl[-1] += "=-77"
            src = "def %s(self%s):\n    _rec(self, %r, %r, dict(%s))\n" % (
                name, "".join(", " + p for p in decl), name, tag,
                ", ".join("%s=%s" % (p, p) for p in params))
            ns = {"_rec": _rec}
            exec(src, ns)
            return ns[name]

        def decorate(s, fn, variant, basevar="same"):
            if s == shape["default"]:
                return default_state(fn)
            is_first = (s == shape["first"])
            is_mf = (s in shape["mf"])
            dur = shape["durOf"][s]
            # the base-class definition that a subclass overrides may have another duration, or be timed where the
            # override is not (and vice versa): only the overriding definition counts
            if basevar == "otherdur" and dur != -1:
                dur = dur + 3
            elif basevar == "fliptimed":
                dur = 4 if dur == -1 else -1
            elif basevar == "flipmf":
                is_mf = not is_mf
            elif basevar == "flipfirst":
                is_first = True
            elif basevar == "asdefault":
                return default_state(fn)
            if dur != -1:
                nx = shape["nextOf"][s]
                if basevar == "fliptimed":
                    nx = "none"
                # whole seconds are written as int literals (duration=2), as user code does
                return timed_state(duration=(dur // 64 if dur % 64 == 0 and dur > 0 else dur / 64.0),
                                   next_state=(None if nx == "none" else nx),
                                   first=is_first, must_finish=is_mf)(fn)
            if not is_first and not is_mf and variant == 0:
                return state(fn)            # bare decorator form
            if next(_uid2) % 2:
                return state(fn, first=is_first, must_finish=is_mf)      # call form: function plus keywords
            return state(first=is_first, must_finish=is_mf)(fn)

        base = AutonomousStateMachine if shape["auto"] else StateMachine
        nl = extra["nlayers"]
        diamond = extra.get("hier") == "diamond" and nl == 3
        side = extra.get("side", {})

        def members(ly, only_side=None):
            ns = {}
            for s in shape["states"]:
                sd = side.get(s, "B")
                if extra["layer"][s] == ly and (only_side is None or sd == only_side):
                    ns[s] = decorate(s, mkfn(s, extra["sigs"][s], "ok"), uid % 2)
                elif s in extra["overridden"] and extra["layer"][s] - 1 == ly and (only_side is None or sd == only_side):
                    # base-class variant that the subclass overrides: same decorator arguments,
                    # different body; it must never run
                    ns[s] = decorate(s, mkfn(s, list(PARAMS), "base"), 1, extra.get("basevar", {}).get(s, "same"))
            return ns

        def with_done(ns):
            def done(self_):
                base.done(self_)
                if self_ is drv.sm:
                    drv.cb.append({"e": "done"})
                    if drv.depth > 0:
                        drv.stopped_in_iter = True
            ns["done"] = done
            return ns
        if diamond:
            A = type("M%d_A" % uid, (base,), members(0))
            B = type("M%d_B" % uid, (A,), members(1, "B"))
            C = type("M%d_C" % uid, (A,), members(1, "C"))
            cls = type("M%d_D" % uid, (B, C), dict(with_done(members(2)), VERBOSE_LOGGING=(uid % 3 == 0) != shape["auto"]))
        else:
            cls = base
            for ly in range(nl):
                ns = members(ly)
                if ly == nl - 1:
                    with_done(ns)
                    if uid % 3 == 0:
                        ns["VERBOSE_LOGGING"] = not shape["auto"]     # (AutonomousStateMachine: True by default)
                cls = type("M%d_L%d" % (uid, ly), (cls,), ns)
        self.cls = cls
        self.byenum = None
        if uid % 7 == 5 and not extra["byobj"]:
            import enum
            try:
                self.byenum = enum.Enum("St%d" % uid, {n: n for n in shape["states"]}, type=str)
            except Exception:  # noqa
                self.byenum = None
        if uid % 2 == 1:
            # the base classes of the hierarchy are machines in their own right and may have been instantiated (and
            # bound) before the class under observation is: what that class is must not depend on it
            for k, bc in enumerate(reversed(cls.__mro__[1:])):
                if bc is base or not issubclass(bc, base) or bc.__module__.startswith("magicbot"):
                    continue
                try:
                    b = bc()
                    b.logger = logging.getLogger("verif.sm.base")
                    setup_tunables(b, "%s_b%d" % (self.name, k))
                except Exception:  # noqa - an incomplete base class (no first state, ...) is refused: fine
                    pass
        self.sm = cls()
        self.sm.logger = logging.getLogger("verif.sm")      # the framework injects a logger
        setup_tunables(self.sm, self.name)
        # a second machine of the very same class, driven at random between the observed machine's calls:
        # two instances must not influence each other
        self.twin = None
        if extra.get("twin"):
            self.twin = cls()
            self.twin.logger = logging.getLogger("verif.sm.twin")
            setup_tunables(self.twin, self.name + "_twin")
            self.twin_rng = random.Random(uid)
        inst = ntcore.NetworkTableInstance.getDefault()
        self.sub = inst.getStringTopic("/components/%s/state/current_state" % self.name).subscribe("<unset>")
        self.inst = inst

    # -- observation --------------------------------------------------------------------------
    def obs(self):
        py = self.sm.current_state
        nt = self.sub.get()
        cur = py if py == nt else "%s|nt:%s" % (py, nt)
        return {"exec": bool(self.sm.is_executing), "cur": cur, "cb": self.cb}

    def emit(self, ev, with_obs=True):
        if "depth" not in ev:
            ev = dict(ev, depth=self.depth + (1 if ev["e"] == "ret" else 0))
        self.steps.append({"in": ev, "out": self.obs() if with_obs else {}})
        self.cb = []

    def ref(self, s):
        if self.extra["byobj"]:
            return getattr(self.cls, s)
        if self.byenum is not None:
            return self.byenum[s]        # a str-based Enum member whose value is the state's name
        return s

    # -- state function callback ----------------------------------------------------------------
    def on_call(self, name, tag, kw):
        rec = {"e": "call", "s": name if tag == "ok" else name + "@" + tag,
               "tm": ticks(kw["tm"]) if "tm" in kw else UNOBS,
               "stm": ticks(kw["state_tm"]) if "state_tm" in kw else UNOBS,
               "ic": (1 if kw["initial_call"] is True else 0 if kw["initial_call"] is False else 7)
               if "initial_call" in kw else -1}
        self.cb.append(rec)
        self.emit(self.pending)
        self.pending = None
        self.depth += 1
        try:
            self.in_state_actions(name)
        finally:
            self.depth -= 1

    def in_state_actions(self, name):
        # a state function may perform several actions (next_state, done, engage, next_state_now ...) before it returns
        for _ in range(4):
            act = self.script.in_state(self, name)
            if act is None:
                break
            k = act["e"]
            if k == "ns":
                self.sm.next_state(self.ref(act["s"]))
                self.emit(act)
            elif k == "nsnow":
                self.pending = act
                try:
                    self.sm.next_state_now(self.ref(act["s"]))
                except InjectedFault as f:
                    if not f.args[0]["caught"] or f.args[0].get("done"):
                        raise
                    # this state function catches what the state it entered through next_state_now() raised
                    f.args[0]["done"] = True
                    self.emit(dict(f.args[0]["ev"], depth=self.depth + 1))
                    continue
                if self.pending is not None:      # nested execute() called no state function
                    self.emit(self.pending)
                    self.pending = None
                else:
                    # the nested frame has returned
                    self.script.consume_ret()
                    self.emit({"e": "ret"})
            elif k == "done":
                self.sm.done()
                self.emit(act)
            elif k == "engage":
                init = None if act["init"] == "none" else self.ref(act["init"])
                self.sm.engage(initial_state=init, force=act["force"])
                self.emit(act)
            elif k == "raise":
                raise InjectedFault({"caught": bool(act["caught"]) and self.depth > 1, "ev": act})

    def run_iteration(self, ev):
        """execute() or on_iteration(): the step is completed by the first state function call"""
        self.pending = ev
        self.stopped_in_iter = False
        n0 = len(self.steps)
        try:
            if ev["e"] == "execute":
                self.sm.execute()
            else:
                self.sm.on_iteration(0.0)
        except InjectedFault as f:
            # the exception left the outermost execute() / on_iteration()
            self.emit({"e": "raise", "caught": False, "depth": f.args[0]["ev"].get("depth", 1)})
            return
        if self.pending is not None:
            self.emit(self.pending)
            self.pending = None
        else:
            self.script.consume_ret()
            self.emit({"e": "ret"})

    def poke_twin(self):
        t = self.twin
        if t is None:
            return
        r = self.twin_rng.random()
        try:
            if self.shape["auto"]:
                if r < 0.3:
                    t.on_enable()
                elif r < 0.8:
                    t.on_enable() if not hasattr(t, "_AutonomousStateMachine__engaged") else None
                    t.on_iteration(0.0)
                elif r < 0.9:
                    t.on_disable()
            else:
                if r < 0.45:
                    t.engage()
                    t.execute()
                elif r < 0.6:
                    t.execute()
                elif r < 0.7:
                    t.done()
                elif r < 0.8:
                    t.engage(force=True)
        except Exception:
            pass

    def apply_top(self, ev):
        self.poke_twin()
        k = ev["e"]
        sm = self.sm
        if k == "engage":
            init = None if ev["init"] == "none" else self.ref(ev["init"])
            sm.engage(initial_state=init, force=ev["force"])
            self.emit(ev)
        elif k == "done":
            sm.done()
            self.emit(ev)
        elif k in ("disable", "adisable"):
            sm.on_disable()
            self.emit(ev)
        elif k in ("aenable", "enable"):
            sm.on_enable()
            self.emit(ev)
        elif k == "tick":
            hs.stepTimingAsync(ev["d"] * TICK_US)
            t = wpilib.Timer.getFPGATimestamp() * 64
            if t != round(t):
                raise ClockError("FPGA time off the 1/64 s grid: %r" % t)
            self.emit(ev, with_obs=False)
        elif k == "setdur":
            path = "/components/%s/state/%s_duration" % (self.name, ev["s"])
            if self.inst.getTopic(path).getTypeString() == "int":
                # a duration written as an int literal makes an integer topic: a dashboard can only send whole seconds
                if ev["d"] % 64 != 0:
                    return
                self.inst.getEntry(path).setInteger(ev["d"] // 64)
            else:
                self.inst.getEntry(path).setDouble(ev["d"] / 64.0)
            self.emit(ev, with_obs=False)
        elif k in ("execute", "aiter"):
            self.run_iteration(ev)
        else:
            raise ValueError("not a top-level event: %r" % (ev,))


class RandomSource:
    def __init__(self, rng, shape, n):
        self.rng = rng
        self.shape = shape
        self.n = n
        self.nondef = [s for s in shape["states"] if s != shape["default"]]
        self.timed = [s for s in self.nondef if shape["durOf"][s] != -1]
        # a per-trace style so that some traces are "continuously engaged" and others erratic
        self.style = rng.choice(["steady", "steady", "erratic", "sparse"])
        # a few traces hand over with next_state_now() again and again inside one iteration (up to 13 frames deep)
        self.deep = rng.random() < 0.06
        self.period = rng.choice([1, 1, 2, 3, 5])
        # machines that work on their own: the default state's function starts a must_finish (timed) state - a chain of
        # them - and nobody calls engage(); the loop just keeps iterating
        self.mfs = [s for s in self.nondef if s in shape["mf"]]
        if shape["default"] != "none" and self.mfs and not shape["auto"] and rng.random() < 0.5:
            self.style = "idle"

    def top_events(self):
        rng = self.rng
        sh = self.shape
        if sh["auto"]:
            on = False
            first = True
            for _ in range(self.n):
                r = rng.random()
                if first or (not on and r < 0.5) or (on and r < 0.03):      # (also while the previous period is still on)
                    first = False
                    on = True
                    yield {"e": "aenable"}
                elif r < 0.08:
                    on = False
                    yield {"e": "adisable"}
                elif r < 0.11:
                    on = False
                    yield {"e": "done"}
                elif r < 0.30:
                    yield {"e": "tick", "d": rng.choice([0, 1, 1, 2, 3, 5, 8, 13])}
                elif r < 0.34 and self.timed:
                    yield {"e": "setdur", "s": rng.choice(self.timed), "d": rng.choice([1, 2, 4, 96, 40, 64, 128, 1, 2, 64, -3, -64])}
                else:
                    yield {"e": "aiter"}
                    if self.style == "steady":
                        yield {"e": "tick", "d": self.period}
            return
        E = {"e": "engage", "init": "none", "force": False}
        X = {"e": "execute"}
        motifs = [
            [E, {"e": "done"}, X, {"e": "tick", "d": 3}, E, X],                 # a request withdrawn before it was served
            [E, X, {"e": "done"}, X, {"e": "tick", "d": 1}, E, X],
            [dict(E, force=True), X, dict(E, force=True), X],
            [{"e": "disable"}, X, E, X],
            [E, dict(E, init=rng.choice(self.nondef)), X],
            [E, X, {"e": "tick", "d": 2}, X, {"e": "tick", "d": 2}, X, E, X],   # the request lapses, then comes back
            [E, E, X, X],
        ]
        for _ in range(self.n):
            r = rng.random()
            if rng.random() < 0.06:
                for ev in rng.choice(motifs):
                    yield dict(ev)
                continue
            if self.style == "idle":
                if r < 0.85:
                    yield {"e": "execute"}
                    yield {"e": "tick", "d": self.period}
                    continue
                r = rng.random()
            if self.style == "steady":
                # engage + execute + fixed period, with occasional disturbances
                if r < 0.80:
                    yield {"e": "engage", "init": "none", "force": False}
                    yield {"e": "execute"}
                    yield {"e": "tick", "d": self.period}
                    continue
                r = rng.random()
            p_eng = 0.35 if self.style == "erratic" else 0.15
            if r < p_eng:
                init = rng.choice(self.nondef) if rng.random() < 0.2 else "none"
                yield {"e": "engage", "init": init, "force": rng.random() < 0.1}
            elif r < p_eng + 0.06:
                yield {"e": "done"}
            elif r < p_eng + 0.09:
                yield {"e": "disable"}
            elif r < p_eng + 0.11:
                yield {"e": "enable"}          # the robot enters an enabled mode: on_enable() of a plain machine does nothing
            elif r < p_eng + 0.30:
                yield {"e": "tick", "d": rng.choice([0, 1, 1, 2, 3, 5, 8, 13, 40])}
            elif r < p_eng + 0.34 and self.timed:
                yield {"e": "setdur", "s": rng.choice(self.timed), "d": rng.choice([1, 2, 4, 96, 40, 64, 128, 1, 2, 64, -3, -64])}
            else:
                yield {"e": "execute"}

    def in_state(self, m, name):
        rng = self.rng
        if name == self.shape["default"]:
            # the default state's function may hand over to another state (the specification follows it: a regular
            # state selected that way is dropped again unless engage() is called; MC does not explore it)
            self.dnth = getattr(self, "dnth", 0) + 1
            if self.style == "idle" and rng.random() < 0.3:
                return {"e": "ns", "s": rng.choice(self.mfs)}
            if rng.random() < 0.04 and not self.shape["auto"]:
                return {"e": "engage", "init": "none", "force": False}      # the default state asks for the machine itself
            if rng.random() < 0.12 and self.nondef:
                return {"e": "ns", "s": rng.choice(self.nondef)}
            return None
        self.nth = getattr(self, "nth", 0)
        if m.steps and m.steps[-1]["in"]["e"] in ("execute", "aiter", "nsnow") and m.steps[-1]["out"].get("cb"):
            self.nth = 0          # a state function was just entered
        self.nth += 1
        if self.deep and self.nth == 1 and m.depth < 13 and not getattr(m, "stopped_in_iter", False) and rng.random() < 0.9:
            return {"e": "nsnow", "s": rng.choice(self.nondef)}
        if self.nth > 1 and rng.random() < 0.6:
            return None           # most state functions do at most one thing
        if getattr(m, "stopped_in_iter", False):
            # the machine stopped under the running state function: selecting a state now would leave it pending on a
            # stopped machine (DESIGN 6: outside the explored space; see known finding F8 for what happens there)
            # (for the autonomous variant nothing runs on a stopped machine - on_iteration() is latched off - so the
            # corner is harmless there apart from the next on_enable() starting at the pending state; it is explored)
            if not (rng.random() < 0.6):
                return {"e": "done"} if rng.random() < 0.2 else None
        r = rng.random()
        if r < 0.22:
            return {"e": "ns", "s": rng.choice(self.nondef)}
        if r < 0.32 and m.depth < 3:
            return {"e": "nsnow", "s": rng.choice(self.nondef)}
        if r < 0.40:
            return {"e": "done"}
        if r < 0.46 and not self.shape["auto"]:
            return {"e": "engage", "init": rng.choice(self.nondef) if rng.random() < 0.3 else "none",
                    "force": rng.random() < 0.4}
        if r < 0.50:
            return {"e": "raise", "caught": rng.random() < 0.5}
        return None

    def consume_ret(self):
        pass


class ScriptSource:
    """Inputs produced by TLC (-simulate on the specification); each event carries 'depth', the
    number of state functions on the stack when it happens."""

    def __init__(self, events):
        self.ev = list(events)
        self.i = 0
        self.skipped = 0

    def top_events(self):
        while self.i < len(self.ev):
            e = self.ev[self.i]
            self.i += 1
            if e.get("depth", 0) > 0 or e["e"] in ("ns", "nsnow", "ret", "raise"):
                self.skipped += 1     # the implementation did not call the state function the spec expected
                continue
            yield {k: v for k, v in e.items() if k != "depth"}

    def in_state(self, m, name):
        if self.i < len(self.ev):
            e = self.ev[self.i]
            if e.get("depth", 0) == m.depth and e["e"] in ("ns", "nsnow", "done", "engage", "raise"):
                self.i += 1
                return {k: v for k, v in e.items() if k != "depth"}
        return None

    def consume_ret(self):
        if self.i < len(self.ev) and self.ev[self.i]["e"] == "ret":
            self.i += 1


def run_trace(tid, shape, extra, source_factory):
    hs.pauseTiming()
    hs.restartTiming()
    try:
        m = Machine(shape, extra)
    except Exception as e:  # noqa  - defining / instantiating the generated machine raised: an observation
        return {"id": tid, "shape": shape, "extra": extra, "raised": "%s: %s" % (type(e).__name__, e),
                "steps": [{"in": {"e": "raised"}, "out": {"exec": False, "cur": "<exception while building> %s: %s" % (
                    type(e).__name__, e), "cb": []}}]}
    src = source_factory(shape)
    m.script = src
    err = None
    try:
        for ev in src.top_events():
            m.apply_top(ev)
    except ClockError:
        raise
    except Exception as e:  # an exception escaping the code under test is an observation
        err = "%s: %s" % (type(e).__name__, e)
        m.steps.append({"in": {"e": "raised"}, "out": {"exec": False, "cur": "<exception> " + err, "cb": []}})
    m.sub.close()
    t = {"id": tid, "shape": shape, "extra": extra, "steps": m.steps}
    if err:
        t["raised"] = err
    if isinstance(src, ScriptSource) and src.skipped:
        t["skipped"] = src.skipped
    return t


def main():
    ap = argparse.ArgumentParser()
    ap.add_argument("--out", required=True)
    ap.add_argument("--seed", type=int, default=0)
    ap.add_argument("--n", type=int, default=100)
    ap.add_argument("--len", type=int, default=40)
    ap.add_argument("--auto", default="0")
    ap.add_argument("--first-id", type=int, default=1)
    ap.add_argument("--scripts")
    a = ap.parse_args()
    traces = []
    if a.scripts:
        jobs = json.load(open(a.scripts))
        for j in jobs:
            shape = j["shape"]
            extra = j.get("extra") or default_extra(shape)
            traces.append(run_trace(j["id"], shape, extra, lambda sh, j=j: ScriptSource(j["events"])))
    else:
        rng = random.Random(a.seed)
        for i in range(a.n):
            auto = {"0": False, "1": True}.get(a.auto)
            if auto is None:
                auto = rng.random() < (0.2 if a.auto == "some" else 0.5)
            shape, extra = gen_shape(rng, auto)
            n = rng.choice([a.len // 2, a.len, a.len * 2])
            traces.append(run_trace(a.first_id + i, shape, extra, lambda sh: RandomSource(rng, sh, n)))
    with open(a.out, "w") as f:
        json.dump(traces, f)


if __name__ == "__main__":
    main()
