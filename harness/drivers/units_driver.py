"""Run the real units.convert / MaxSonar / REV pressure drivers on cases emitted by specs/Units.tla.

usage: units_driver.py --cases FILE --out FILE      (cases: {"units": {...}, "cases": [...]})
"""
import argparse
import json
import os
import sys

REPO = os.environ.get("VERIF_REPO", "/repo")
sys.path.insert(0, REPO)
import wpilib  # noqa: E402
from wpilib.simulation import AnalogInputSim, RoboRioSim  # noqa: E402
from robotpy_ext.common_drivers import units  # noqa: E402
from robotpy_ext.common_drivers.pressure_sensors import REVAnalogPressureSensor  # noqa: E402
from robotpy_ext.common_drivers.xl_max_sonar_ez import MaxSonarEZAnalog, MaxSonarEZPulseWidth  # noqa: E402


class StubCounter:
    def __init__(self):
        self.period = 0.0

    def getPeriod(self):
        return self.period


def main():
    ap = argparse.ArgumentParser()
    ap.add_argument("--cases", required=True)
    ap.add_argument("--out", required=True)
    a = ap.parse_args()
    spec = json.load(open(a.cases))
    U = {"meter": units.meter, "centimeter": units.centimeter, "foot": units.foot, "inch": units.inch}
    pending = dict(spec["units"])
    while pending:
        for name, d in list(pending.items()):
            if d["base"] == "none":
                # a root of the user's own, declared as the library declares its own root
                U[name] = units.Unit(base_unit=None, base_to_unit=lambda x: None, unit_to_base=lambda x: None)
                del pending[name]
                continue
            if d["base"] in U:
                n, dn = d["factor"]
                if name in ("u5", "u1"):
                    # user units whose callables use units.convert() themselves (written in terms of the library's foot and
                    # inch): convert() is entered again while a conversion is in progress - also in the middle of a chain
                    # (u2 and u3 derive from u1)
                    U[name] = units.Unit(U[d["base"]],
                                         (lambda x, n=n, dn=dn: units.convert(units.inch, units.foot, x * 12.0) * n / dn),
                                         (lambda x, n=n, dn=dn: units.convert(units.foot, units.inch, x) / 12.0 * dn / n))
                else:
                    U[name] = units.Unit(U[d["base"]], (lambda x, n=n, dn=dn: x * n / dn), (lambda x, n=n, dn=dn: x * dn / n))
                del pending[name]
    press = {}
    chan = 0
    sonar_pw = {}
    sonar_an = {}
    # every sensor a case will need is constructed up front (construction order must not matter to readings)
    for b in ("foot", "inch", "meter", "centimeter"):
        if any(c["k"] == "sonar_pw" and c["b"] == b for c in spec["cases"]):
            try:
                sp = MaxSonarEZPulseWidth(len(sonar_pw), U[b]) if b != "inch" else MaxSonarEZPulseWidth(len(sonar_pw))
            except Exception:  # noqa  - reported per case below (the lazy path constructs it again)
                continue
            sp.counter = StubCounter()
            sonar_pw[b] = sp
    for b in ("foot", "inch", "meter", "centimeter"):
        if any(c["k"] == "sonar_an" and c["b"] == b for c in spec["cases"]):
            try:
                sa = MaxSonarEZAnalog(chan, U[b]) if b != "inch" else MaxSonarEZAnalog(chan)
            except Exception:  # noqa
                continue
            chan += 1
            sonar_an[b] = (sa, AnalogInputSim(sa.analog))
    out = []
    nconv = 0
    for c in spec["cases"]:
        k = c["k"]
        r = None
        err = None
        try:
            if k == "convert":
                nconv += 1
                if nconv % 5 == 0:
                    # a conversion that fails part-way (the caller survives it) must leave nothing behind
                    for bad in (None, 10 ** 400, "x"):
                        for tgt in (c["b"], c["c"], "inch"):
                            try:
                                units.convert(U[c["a"]], U[tgt], bad)
                            except Exception:  # noqa
                                pass
                v = c["v"][0] / c["v"][1]
                if nconv % 3 == 0 and any(x in spec["units"] for x in (c["a"], c["b"], c["c"])):
                    # user-defined units come and go: this case gets unit objects of its own, built afresh (after a
                    # throw-away unit with another factor has lived and died at what may be the same address)
                    def throwaway():
                        t = units.Unit(units.meter, lambda x: x * 7.0, lambda x: x / 7.0)
                        units.convert(t, units.inch, 1.0)
                        units.convert(units.foot, t, 1.0)
                    throwaway()
                    saved = dict(U)
                    for name in spec["units"]:
                        del U[name]
                    pend = dict(spec["units"])
                    while pend:
                        for name, d in list(pend.items()):
                            if d["base"] == "none":
                                U[name] = units.Unit(base_unit=None, base_to_unit=lambda x: None, unit_to_base=lambda x: None)
                                del pend[name]
                                continue
                            if d["base"] in U:
                                n, dn = d["factor"]
                                U[name] = units.Unit(U[d["base"]], (lambda x, n=n, dn=dn: x * n / dn),
                                                     (lambda x, n=n, dn=dn: x * dn / n))
                                del pend[name]
                    try:
                        r = units.convert(U[c["a"]], U[c["b"]], v)
                        c["_id"] = units.convert(U[c["a"]], U[c["a"]], v)
                        c["_rt"] = units.convert(U[c["b"]], U[c["a"]], r)
                        c["_via"] = units.convert(U[c["b"]], U[c["c"]], r)
                        c["_direct"] = units.convert(U[c["a"]], U[c["c"]], v)
                    finally:
                        U.clear()
                        U.update(saved)
                    out.append({"case": c, "r": r, "err": None})
                    continue
                r = units.convert(U[c["a"]], U[c["b"]], v)
                # the laws themselves, on the real code
                c["_id"] = units.convert(U[c["a"]], U[c["a"]], v)
                c["_rt"] = units.convert(U[c["b"]], U[c["a"]], r)
                c["_via"] = units.convert(U[c["b"]], U[c["c"]], r)
                c["_direct"] = units.convert(U[c["a"]], U[c["c"]], v)
            elif k == "deep":
                chain = [units.Unit(base_unit=None, base_to_unit=lambda x: None, unit_to_base=lambda x: None)]
                for j in range(c["n"]):
                    f = 2.0 if j % 2 == 0 else 0.5
                    chain.append(units.Unit(chain[-1], (lambda x, f=f: x * f), (lambda x, f=f: x / f)))
                v = c["v"][0] / c["v"][1]
                up = units.convert(chain[-1], chain[0], v)
                r = units.convert(chain[0], chain[-1], up)
                if up != v:
                    r = up          # (the comparison below reports it)
            elif k == "sonar_pw":
                if c["b"] not in sonar_pw:
                    s = MaxSonarEZPulseWidth(len(sonar_pw), U[c["b"]])
                    s.counter = StubCounter()
                    sonar_pw[c["b"]] = s
                s = sonar_pw[c["b"]]
                tgt = c["us"][0] / c["us"][1] / 1e6
                for j in range(5, 0, -1):      # the reading creeps up on the value (a reading is a function of the input alone)
                    s.counter.period = tgt + j * 2e-8
                    s.get()
                s.counter.period = tgt
                r = s.get()
            elif k == "sonar_an":
                if c["b"] not in sonar_an:
                    s = MaxSonarEZAnalog(chan, U[c["b"]])
                    chan += 1
                    sonar_an[c["b"]] = (s, AnalogInputSim(s.analog))
                s, sim = sonar_an[c["b"]]
                tgt = c["mv"][0] / c["mv"][1] / 1000.0
                # (the documented scale is 4.9 mV per cm whatever the roboRIO's 5 V rail happens to measure)
                RoboRioSim.setUserVoltage5V([5.0, 4.8, 5.1][len(out) % 3])
                for j in range(5, 0, -1):      # a slowly drifting input, far less than one ADC step per sample
                    sim.setVoltage(tgt + j * 0.0003)
                    s.get()
                sim.setVoltage(tgt)
                r = s.get()
            elif k in ("pressure", "calib", "recalib"):
                vcc = c["vcc"][0] / c["vcc"][1]
                if vcc not in press:
                    s = REVAnalogPressureSensor(chan, voltage_in=vcc)
                    chan += 1
                    press[vcc] = (s, AnalogInputSim(s.sensor))
                s, sim = press[vcc]
                if k == "pressure":
                    tgt = c["v"][0] / c["v"][1]
                    for j in range(4, 0, -1):
                        sim.setVoltage(tgt + j * 0.0002)
                        s.pressure
                    sim.setVoltage(tgt)
                    r = s.pressure
                else:
                    if k == "recalib":
                        sim.setVoltage(c["vo1"][0] / c["vo1"][1])
                        s.calibrate(c["p1"][0] / c["p1"][1])
                    sim.setVoltage(c["vo"][0] / c["vo"][1])
                    s.calibrate(c["p"][0] / c["p"][1])
                    r = s.pressure
                    del s.Vn
        except Exception as e:  # noqa
            err = "%s: %s" % (type(e).__name__, e)
        out.append({"case": c, "r": r, "err": err})
    json.dump(out, open(a.out, "w"))


if __name__ == "__main__":
    main()
