"""Drive Toggle / ButtonDebouncer / PeriodicFilter / SimpleWatchdog and record traces for specs/Controls.tla.

usage: ctl_driver.py --out FILE --seed S --n N [--first-id K]   |   ctl_driver.py --out FILE --scripts FILE
"""
import argparse
import json
import logging
import os
import random
import re
import sys

REPO = os.environ.get("VERIF_REPO", "/repo")
sys.path.insert(0, REPO)
import hal.simulation as hs  # noqa: E402
import wpilib  # noqa: E402
import robotpy_ext.misc.periodic_filter as pf_mod  # noqa: E402
from robotpy_ext.control.button_debouncer import ButtonDebouncer  # noqa: E402
from robotpy_ext.control.toggle import Toggle  # noqa: E402
from robotpy_ext.misc.periodic_filter import PeriodicFilter  # noqa: E402
from robotpy_ext.misc.simple_watchdog import SimpleWatchdog  # noqa: E402

TICK_US = 15625


class Joy:
    level = False

    def getRawButton(self, n):
        return self.level


class RealJoy:
    """a real wpilib.Joystick fed through the driver-station simulator (it has everything a Joystick has: the
    press / release latches, other buttons ...); setting .level sends a driver-station packet"""

    def __init__(self):
        import wpilib.simulation
        self._ds = wpilib.simulation.DriverStationSim
        self._ds.setJoystickButtonCount(0, 12)
        self._level = False
        self.stick = wpilib.Joystick(0)
        self._send(False)

    def _send(self, v):
        self._ds.setJoystickButton(0, 3, bool(v))
        self._ds.setJoystickButton(0, 4, not v)        # another button does the opposite
        self._ds.notifyNewData()

    @property
    def level(self):
        return self._level

    @level.setter
    def level(self, v):
        if bool(v) != self._level:
            self._level = bool(v)
            self._send(v)

    def __getattr__(self, name):
        return getattr(self.stick, name)


class FakeTime:
    """stands in for the time module inside periodic_filter (monotonic clock on the 1/64 s grid)"""
    now = 0

    def monotonic(self):
        return FakeTime.now / 64.0


class Capture(logging.Handler):
    def __init__(self):
        super().__init__()
        self.records = []

    def emit(self, record):
        self.records.append(record)


def run_trace(tid, shape, events):
    hs.pauseTiming()
    hs.restartTiming()
    FakeTime.now = 0
    pf_mod.time = FakeTime()
    kind = shape["kind"]
    # the helpers look at a button and at the clock, not at what mode the robot is in
    import wpilib.simulation
    dss = wpilib.simulation.DriverStationSim
    mode = tid % 4
    dss.setDsAttached(True)
    dss.setEnabled(mode in (1, 2))
    dss.setAutonomous(mode == 1)
    dss.setTest(mode == 3)
    dss.notifyNewData()
    joy = RealJoy() if tid % 2 == 0 and kind in ("toggle", "bd") else Joy()
    cap = Capture()
    wlog = logging.getLogger("simple_watchdog")
    wlog.handlers = [cap]
    wlog.setLevel(logging.DEBUG)
    wlog.propagate = False
    obj = None
    try:
        obj = make_object(kind, shape, joy)
    except Exception as e:  # noqa
        return {"id": tid, "shape": shape, "steps": [{"in": {"e": "raised"}, "out": {"r": "constructor raised %s: %s" % (type(e).__name__, e)}}]}
    return run_events(tid, shape, events, obj, joy, cap)


NREC = [0]
try:
    raise ValueError("an exception whose traceback a log record may carry")
except ValueError:
    EXC_INFO = sys.exc_info()
DECOYS = []


def make_object(kind, shape, joy):
    obj = None
    # the same object can be asked for in several ways: positional / keyword arguments, documented defaults left out,
    # whole seconds as ints
    p = shape["period"]
    secs = p // 64 if p % 64 == 0 and p > 0 else p / 64.0
    if kind == "toggle":
        # another debounced Toggle on the very same button, with another period, made earlier (and left alone)
        if len(DECOYS) % 2 == 0:
            DECOYS.append(Toggle(joy, 3, (p + 5) / 64.0))
        else:
            DECOYS.append(None)
        del DECOYS[:-2]
        obj = Toggle(joy, 3) if p == 0 else Toggle(joy, 3, secs) if p % 2 else Toggle(joy, 3, debounce_period=secs)
    elif kind == "bd":
        obj = ButtonDebouncer(joy, 3) if p == 32 else ButtonDebouncer(joy, 3, period=secs) if p % 2 else ButtonDebouncer(joy, 3, secs)
    elif kind == "pf":
        b = shape["bypass"]
        obj = PeriodicFilter(secs) if b == 30 and p % 2 else PeriodicFilter(secs, b) if p % 3 == 0 else PeriodicFilter(secs, bypass_level=b)
    elif kind == "wd":
        obj = SimpleWatchdog(shape["timeout"] / 1e6)
    return obj


def run_events(tid, shape, events, obj, joy, cap):
    kind = shape["kind"]
    steps = []
    for ev in events:
        ev = {k: v for k, v in ev.items() if k != "x"}
        k = ev["e"]
        out = {"r": False}
        try:
            if k == "tick":
                hs.stepTimingAsync(ev["d"] * (shape.get("tickus", TICK_US) if kind == "wd" else TICK_US))
                FakeTime.now += ev["d"]
            elif k == "sample":
                joy.level = bool(ev["level"])
                a = ev["acc"]
                r = obj.get() if a == "get" else obj.on if a == "on" else obj.off if a == "off" else bool(obj)
                out = {"r": r if isinstance(r, bool) else "notbool"}
            elif k == "bget":
                joy.level = bool(ev["level"])
                r = obj.get()
                out = {"r": r if isinstance(r, bool) else "notbool"}
            elif k == "bdset":
                obj.set_debounce_period(ev["p"] / 64.0)
            elif k == "rec":
                # (every third record carries exception information, as logger.exception() / exc_info=True produce)
                NREC[0] += 1
                # (one filter serves several loggers: the limit is per filter, not per logger name)
                rec = logging.LogRecord(("x", "robot", "components.arm", None)[NREC[0] % 4], ev["lvl"], __file__, 1, "msg", None,
                                        EXC_INFO if NREC[0] % 3 == 0 else None)
                out = {"r": bool(obj.filter(rec))}
            elif k == "reset":
                obj.reset()
            elif k == "enable":
                obj.enable()
            elif k == "disable":
                obj.disable()
            elif k == "gettime":
                out = {"r": int(round(obj.getTime() * 1e6))}
            elif k == "gettimeout":
                out = {"r": int(round(obj.getTimeout() * 1e6))}
            elif k == "settimeout":
                obj.setTimeout(ev["t"] / 1e6)
            elif k == "expired":
                out = {"r": bool(obj.isExpired())}
            elif k == "epoch":
                obj.addEpoch("e%d" % len(steps))
            elif k == "print":
                cap.records = []
                obj.printIfExpired()
                warns = [r for r in cap.records if r.levelno == logging.WARNING]
                infos = [r for r in cap.records if r.levelno == logging.INFO]
                nep, fed = 0, 0
                if infos:
                    txt = infos[0].getMessage()
                    nep = len(re.findall(r"^\t", txt, flags=re.M))
                if warns:
                    m = re.search(r"after ([0-9.]+)s", warns[0].getMessage())
                    fed = int(round(float(m.group(1)) * 1e6)) if m else -1
                out = {"r": len(warns) == 1, "nep": nep, "fed": fed, "nwarn": len(warns)}
                if len(warns) > 1:
                    out["r"] = "many"
        except Exception as e:
            out = {"r": "raised %s: %s" % (type(e).__name__, e)}
        steps.append({"in": ev, "out": out})
    return {"id": tid, "shape": shape, "steps": steps}


def random_events(rng, shape):
    kind = shape["kind"]
    evs = []
    n = rng.choice([20, 60, 150])
    held = False
    for _ in range(n):
        if rng.random() < 0.45:
            if kind == "wd":
                d = rng.choice([0, 1, 1, 2, 5, 13, 64, 70])
            else:
                d = rng.choice([0, 1, 1, 2, 3, 5, 8, max(1, shape["period"]), shape["period"] + 1])
            evs.append({"e": "tick", "d": d})
            continue
        if kind == "toggle":
            if rng.random() < 0.35:
                held = not held
            evs.append({"e": "sample", "level": held, "acc": rng.choice(["get", "get", "on", "off", "bool"])})
        elif kind == "bd":
            if rng.random() < 0.3:
                held = not held
            if rng.random() < 0.08:
                evs.append({"e": "bdset", "p": rng.choice([1, 2, 3, 8, 32, shape["period"]])})
            evs.append({"e": "bget", "level": held})
        elif kind == "pf":
            evs.append({"e": "rec", "lvl": rng.choice([0, 5, 10, 20, 20, 30, 40, 50])})
        else:
            r = rng.random()
            evs.append({"e": "reset"} if r < 0.17 else {"e": "enable"} if r < 0.2 else {"e": "expired"} if r < 0.42
                       else {"e": "disable"} if r < 0.45 else {"e": "epoch"} if r < 0.6 else {"e": "gettime"} if r < 0.64
                       else {"e": "gettimeout"} if r < 0.66
                       else {"e": "settimeout", "t": rng.choice([5000, 20000, 31250, 7 * shape.get("tickus", TICK_US),
                                                                 70 * shape.get("tickus", TICK_US)])} if r < 0.7
                       else {"e": "print"})
    return evs


def gen_shape(rng):
    kind = rng.choice(["toggle", "toggle", "bd", "pf", "wd"])
    period = rng.choice([0, 2, 3, 8, 32, 64]) if kind == "toggle" else rng.choice([1, 2, 3, 8, 32, 64])
    tickus = rng.choice([15625, 15625, 10007, 3333])
    return {"kind": kind, "period": period, "bypass": rng.choice([0, 10, 20, 30, 30, 40, 50]), "tickus": tickus,
            "timeout": rng.choice([5000, 20000, 46875, 2 * tickus, 13 * tickus, 70 * tickus])}


def main():
    ap = argparse.ArgumentParser()
    ap.add_argument("--out", required=True)
    ap.add_argument("--seed", type=int, default=0)
    ap.add_argument("--n", type=int, default=100)
    ap.add_argument("--first-id", type=int, default=1)
    ap.add_argument("--scripts")
    a = ap.parse_args()
    traces = []
    if a.scripts:
        for j in json.load(open(a.scripts)):
            traces.append(run_trace(j["id"], j["shape"], j["events"]))
    else:
        rng = random.Random(a.seed)
        for i in range(a.n):
            sh = gen_shape(rng)
            traces.append(run_trace(a.first_id + i, sh, random_events(rng, sh)))
    json.dump(traces, open(a.out, "w"))


if __name__ == "__main__":
    main()
