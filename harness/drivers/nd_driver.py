"""Drive the real robotpy_ext.misc.NotifierDelay under the HAL simulator (single-threaded: the wrapper
around hal.waitForNotifierAlarm advances the simulated clock to the armed alarm before blocking).

usage: nd_driver.py --out FILE --seed S --n N [--first-id K]   |   nd_driver.py --out FILE --scripts FILE
"""
import argparse
import time
from fractions import Fraction
import json
import os
import random
import sys

REPO = os.environ.get("VERIF_REPO", "/repo")
sys.path.insert(0, REPO)
import hal  # noqa: E402
import hal.simulation as hs  # noqa: E402
import wpilib  # noqa: E402
from robotpy_ext.misc.precise_delay import NotifierDelay  # noqa: E402

NOALARM = 18446744073709551615
_real_wait = hal.waitForNotifierAlarm
blocked = [False]


def _wrapper(handle):
    nxt = hs.getNextNotifierTimeout()
    now = wpilib.RobotController.getFPGATime()
    if nxt == NOALARM:
        blocked[0] = True        # nothing armed: the real call would block forever
        return 0
    if nxt > now:
        hs.stepTimingAsync(nxt - now)
    return _real_wait(handle)


hal.waitForNotifierAlarm = _wrapper


BASES = [0, 0, 0, 2 ** 31 - 30000, 2 ** 32 - 50000, 2 ** 32 + 7000000]


PREV = [None]
SLEEPS = [False]      # wait() on a freed NotifierDelay was seen to take wall time


def next_slot():
    """the handle the HAL would hand out next (lowest free slot of its notifier table); the probe is given back at once"""
    h, _ = hal.initializeNotifier()
    hal.cleanNotifier(h)
    return h


def run_trace(tid, events):
    hs.pauseTiming()
    # some histories start shortly before / after the FPGA microsecond counter passes 2^31 or 2^32
    target = BASES[tid % len(BASES)]
    cur = wpilib.RobotController.getFPGATime()
    if target > cur:
        hs.stepTimingAsync(target - cur)
    base = wpilib.RobotController.getFPGATime()
    # the application may have installed its own clock for RobotController.getTime(); NotifierDelay works on FPGA time
    if tid % 5 == 4:
        off = 5000000 if tid % 2 else -(base // 2)
        wpilib.RobotController.setTimeSource(lambda: wpilib.RobotController.getFPGATime() + off)
    n0 = hs.getNumNotifiers()
    s0 = next_slot()
    d = None
    freed = False
    nwait = 0
    steps = []
    for ev in events:
        ev = {k: v for k, v in ev.items() if k != "x"}
        err = False
        blocked[0] = False
        k = ev["e"]
        try:
            if k == "new":
                freed = False
                # (whole seconds are written as ints; any real number will do: every seventh history uses a Fraction)
                if tid % 7 == 3 and ev["p"] > 1000:      # (exactly 1 ms as a Fraction is below the float 0.001 of the guard)
                    d = NotifierDelay(Fraction(ev["p"], 1000000))
                else:
                    d = NotifierDelay(ev["p"] // 1000000 if ev["p"] % 1000000 == 0 and ev["p"] > 0 else ev["p"] / 1e6)
                if abs(d.delay_period - ev["p"]) > 1:
                    err = True
            elif k == "body":
                hs.stepTimingAsync(ev["b"])
            elif k == "wait":
                nwait += 1
                if nwait == 2 and PREV[0] is not None:
                    import gc
                    PREV[0] = None
                    gc.collect()
                if freed and d.delay_period >= 20000:
                    # "after free() ... wait() returns immediately": in wall time too (the best of three calls, so that a
                    # hiccup of the machine is not mistaken for a sleep)
                    if SLEEPS[0]:
                        err = True          # (established earlier in this process: do not sit through it again)
                    else:
                        best = 1e9
                        for _ in range(3):
                            w0 = time.monotonic()
                            d.wait()
                            best = min(best, time.monotonic() - w0)
                            if best <= 0.5 * d.delay_period / 1e6:
                                break
                        if best > 0.5 * d.delay_period / 1e6:
                            err = True
                            SLEEPS[0] = True
                else:
                    d.wait()
            elif k == "enter":
                d.__enter__()
            elif k == "free":
                freed = True
                if ev.get("how") == "with":
                    d.__exit__(None, None, None)
                elif ev.get("how") == "with_exc":
                    exc = RuntimeError("loop body failed")
                    d.__exit__(type(exc), exc, None)
                else:
                    d.free()
        except ValueError:
            err = True
        except Exception as e:  # noqa  - nothing else is specified to raise
            steps.append({"in": {"e": "raised"}, "out": {"t": 0, "n": 0, "alarm": -1, "err": True,
                                                           "msg": "%s: %s at %s" % (type(e).__name__, e, ev)}})
            break
        nxt = hs.getNextNotifierTimeout()
        steps.append({"in": ev, "out": {
            "t": wpilib.RobotController.getFPGATime() - base,
            # running notifiers, and (normally 0) slots of the HAL's notifier table that are taken without a running
            # notifier: a stopped notifier that was never cleaned is not "released"
            "n": max(hs.getNumNotifiers() - n0, next_slot() - s0),
            "alarm": -1 if nxt == NOALARM else nxt - base,
            "err": err or blocked[0]}})
    if d is not None:
        d.free()
    wpilib.RobotController.setTimeSource(wpilib.RobotController.getFPGATime)
    # the freed object of this history stays referenced for a while: it is dropped in the middle of the next one
    # (a freed NotifierDelay that is collected late must not touch a handle that now belongs to another one)
    PREV[0] = d
    return {"id": tid, "shape": {"none": 0}, "steps": steps}


def random_events(rng):
    P = rng.choice([1000, 5000, 15625, 20000, 20000, 100000, 2300, 33333, 1000000, 1500000, 2000000, 1250000])
    if int((P / 1e6) * 1e6) != P:
        P = 20000        # (the period is passed in seconds: only values that survive the float round trip are used)
    evs = []
    if rng.random() < 0.05:
        evs.append({"e": "new", "p": rng.choice([0, 500, 999])})
    evs.append({"e": "new", "p": P})
    style = rng.choice(["short", "mixed", "long"])
    for _ in range(rng.randint(3, 40)):
        r = rng.random()
        if r < 0.04:
            evs.append({"e": "free", "how": rng.choice(["free", "with", "with_exc"])})
            continue
        if r < 0.08:
            evs.append({"e": "enter"})
            continue
        if style == "short":
            b = rng.choice([0, 1, P // 4, P // 2, P - 1])
        elif style == "long":
            b = rng.choice([P, P + 1, 2 * P, 3 * P + 7, 10 * P])
        else:
            b = rng.choice([0, P // 4, P - 1, P, P + 1, 3 * P + 7, rng.randrange(0, 4 * P)])
        evs.append({"e": "body", "b": b})
        evs.append({"e": "wait"})
    return evs


def main():
    ap = argparse.ArgumentParser()
    ap.add_argument("--out", required=True)
    ap.add_argument("--seed", type=int, default=0)
    ap.add_argument("--n", type=int, default=100)
    ap.add_argument("--first-id", type=int, default=1)
    ap.add_argument("--scripts")
    a = ap.parse_args()
    hs.pauseTiming()
    hs.restartTiming()
    traces = []
    if a.scripts:
        for j in json.load(open(a.scripts)):
            traces.append(run_trace(j["id"], j["events"]))
    else:
        rng = random.Random(a.seed)
        for i in range(a.n):
            traces.append(run_trace(a.first_id + i, random_events(rng)))
    json.dump(traces, open(a.out, "w"))


if __name__ == "__main__":
    main()
