"""Build the StateMachine definitions enumerated by specs/SMDef.tla with the real library and report what happens.

usage: smdef_driver.py --attrs FILE                 (dump dir(StateMachine) identifiers)
       smdef_driver.py --cases FILE --out FILE
"""
import argparse
import itertools
import json
import keyword
import os
import sys

REPO = os.environ.get("VERIF_REPO", "/repo")
sys.path.insert(0, REPO)
from magicbot.magic_tunable import setup_tunables  # noqa: E402
from magicbot import state_machine as smod  # noqa: E402
from magicbot.state_machine import StateMachine, default_state, state, timed_state  # noqa: E402

VISIT = {"single": [1], "linear2": [1, 2], "linear3": [1, 2, 3], "diamond": [1, 3, 2, 4], "mixin": [2, 1, 3]}
_uid = itertools.count()


def errname(e):
    if isinstance(e, RuntimeError) and e.__cause__ is not None:
        return type(e.__cause__).__name__
    return type(e).__name__


def mkfn(name, doc=None, params="self"):
    ns = {}
    exec("def %s(%s):\n    %s\n" % (name, params, repr(doc) if doc else "pass"), ns)
    return ns[name]


_form = itertools.count()


def decorate(flavour, fn):
    if flavour == "S":
        return state(fn)
    if flavour == "SF":
        # decorator-factory form and call form (function plus keywords)
        return state(first=True)(fn) if next(_form) % 2 else state(fn, first=True)
    if flavour == "T":
        return timed_state(duration=1.0)(fn)
    if flavour == "TF":
        return timed_state(duration=1.0, first=True)(fn)
    if flavour == "D":
        return default_state(fn)
    return fn


def deco(d, fn):
    return {"state": lambda f: state(f),
            "state_first": lambda f: state(first=True)(f) if next(_form) % 2 else state(f, first=True),
            "timed_state": lambda f: timed_state(duration=1.0, first=True)(f),
            "default_state": lambda f: default_state(f)}[d](fn)


def run_hier(c):
    h, cls = c["h"], c["cls"]
    uid = next(_uid)
    built = []
    # a state may be called like the duration tunable of a timed state ('a' timed, another state 'a_duration'):
    # in every fifth such hierarchy the second name is spelt that way
    py = {}
    # (only within one class body: across classes the implicit tunable of a derived timed state shadows an inherited
    #  state of that name - a naming clash the library does not diagnose and C12 does not speak about)
    if uid % 3 == 1 and h == "single" and any(m["n"] == "a" and m["f"] in ("T", "TF") for body in cls for m in body):
        py = {"_b": "a_duration"}
    unpy = {v: k for k, v in py.items()}
    try:
        for i, body in enumerate(cls, start=1):
            ns = {}
            for m in body:
                pn = py.get(m["n"], m["n"])
                ns[pn] = decorate(m["f"], mkfn(pn, "%s@%d" % (m["n"], i)))
            if h in ("single", "linear2", "linear3"):
                bases = (built[-1],) if built else (StateMachine,)
            elif h == "diamond":
                bases = {1: (StateMachine,), 2: (built[0],) if built else (), 3: (built[0],) if built else ()}.get(i) or (built[1], built[2])
            else:
                bases = (StateMachine,) if i < 3 else (built[0], built[1])
            built.append(type("H%d_%d" % (uid, i), bases, ns))
    except Exception as e:  # noqa
        return {"define_error": errname(e), "msg": str(e)}
    final = built[-1]
    order = [built.index(k) + 1 for k in reversed(final.__mro__) if k in built]
    if order != VISIT[h]:
        return {"machinery": "unexpected MRO %s" % order}
    if c.get("pre"):
        # the base classes (those that can be) are instantiated, bound and read first
        for j, k in enumerate(built[:-1]):
            try:
                b = k()
                # ... under the very name the derived machine is going to use (the key is already taken when it comes up)
                setup_tunables(b, "smdef_%d_%d" % (os.getpid(), uid))
                list(b.state_names), list(b.state_descriptions)
            except Exception:  # noqa
                pass
    try:
        obj = final()
    except Exception as e:  # noqa
        first = errname(e)
        try:                      # ... and trying again does not help
            final()
            return {"error": None, "names": ["<accepted at the second attempt after %s>" % first], "descr": []}
        except Exception as e2:  # noqa
            return {"error": errname(e2) if errname(e2) == first else "%s then %s" % (first, errname(e2))}
    try:
        setup_tunables(obj, "smdef_%d_%d" % (os.getpid(), uid))
        names = [unpy.get(x, x) for x in obj.state_names]
        descr = []
        for d in obj.state_descriptions:
            n, _, k = d.partition("@")
            descr.append({"n": n, "c": int(k) if k.isdigit() else -1})
        if uid % 2 == 0:
            # a second instance of the same class, connected later, lists the same states
            obj2 = final()
            setup_tunables(obj2, "smdef_%d_%d_2nd" % (os.getpid(), uid))
            # (... and the first instance goes on listing them: found D13)
            if [unpy.get(x, x) for x in obj2.state_names] != names or [unpy.get(x, x) for x in obj.state_names] != names \
                    or list(obj2.state_descriptions) != list(obj.state_descriptions):
                return {"error": "second_instance_lists_differ", "msg": str(list(obj2.state_names))}
        return {"error": None, "names": names, "descr": descr}
    except Exception as e:  # noqa
        return {"error": "after_instantiation:" + errname(e), "msg": str(e)}


def run_sig(c):
    params = ", ".join(c["ps"])
    try:
        fn = mkfn("st", None, params)
    except SyntaxError:
        return {"skipped": "python rejects the parameter list"}
    try:
        deco(c["d"], fn)
        return {"error": None}
    except Exception as e:  # noqa
        return {"error": errname(e)}


def run_name(c):
    try:
        fn = mkfn(c["n"])
    except SyntaxError:
        return {"skipped": "not definable"}
    try:
        w = deco(c["d"], fn)
        type("N%d" % next(_uid), (StateMachine,), {c["n"]: w})
        return {"error": None}
    except Exception as e:  # noqa
        return {"error": errname(e)}


def run_other(c):
    k = c["k"]
    try:
        if k == "mangled":
            # a state function whose name starts with two underscores, written in a class body: Python binds it under
            # '_<Class>__x', another name than the function's
            env = {"StateMachine": StateMachine, "deco": deco, "d": c["d"]}
            exec("class Owner%d(StateMachine):\n    def __x(self):\n        pass\n    __x = deco(d, __x)\n" % next(_uid), env)
            return {"error": None}
        w = deco(c["d"], mkfn("orig"))
        if k == "alias":
            type("A%d" % next(_uid), (StateMachine,), {"other": w})
        elif k == "outside":
            type("O%d" % next(_uid), (object,), {"orig": w})
        elif k in ("alias_reuse", "outside_reuse"):
            home = type("Home%d" % next(_uid), (StateMachine,), {"orig": w})      # legitimate first binding
            if k == "alias_reuse":
                type("B%d" % next(_uid), (StateMachine,), {"borrowed": home.orig})
            else:
                type("P%d" % next(_uid), (object,), {"orig": home.orig})
        else:
            ns = {"orig": w}
            if c["d"] != "state_first" and c["d"] != "timed_state":
                ns["begin"] = state(first=True)(mkfn("begin"))
            cls = type("C%d" % next(_uid), (StateMachine,), ns)
            if k == "call":
                # however the state is called directly - with the arguments a state function takes, by keyword ...
                inst = cls()
                how = next(_uid) % 4
                if how == 0:
                    inst.orig()
                elif how == 1:
                    inst.orig(0.0, 0.0, True)
                elif how == 2:
                    inst.orig(tm=1.5)
                else:
                    inst.orig(initial_call=False, state_tm=0.25)
            else:
                cls.orig(None)
        return {"error": None}
    except Exception as e:  # noqa
        return {"error": errname(e)}


def main():
    ap = argparse.ArgumentParser()
    ap.add_argument("--attrs")
    ap.add_argument("--cases")
    ap.add_argument("--out")
    a = ap.parse_args()
    if a.attrs:
        names = [n for n in dir(StateMachine) if n.isidentifier() and not keyword.iskeyword(n)]
        # ... and what the class answers to through its metaclass (StateMachine.mro, StateMachine.__name__, ...), which
        # dir() of a class leaves out
        names += [n for n in dir(type) if n not in names and n.isidentifier() and hasattr(StateMachine, n)]
        json.dump(names, open(a.attrs, "w"))
        return
    out = []
    for c in json.load(open(a.cases)):
        k = c["k"]
        r = run_hier(c) if k == "hier" else run_sig(c) if k == "sig" else run_name(c) if k == "name" else run_other(c)
        out.append(r)
    json.dump(out, open(a.out, "w"))


if __name__ == "__main__":
    main()
