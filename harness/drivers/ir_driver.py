"""Readings of the real Sharp IR drivers for all 4096 ADC codes, special voltages and through the sim helpers.

usage: ir_driver.py --out FILE
"""
import argparse
import numbers
from fractions import Fraction
import json
import math
import os
import sys

REPO = os.environ.get("VERIF_REPO", "/repo")
sys.path.insert(0, REPO)
from wpilib.simulation import AnalogInputSim, RoboRioSim  # noqa: E402
from robotpy_ext.common_drivers import distance_sensors as ds  # noqa: E402
from robotpy_ext.common_drivers import distance_sensors_sim as dss  # noqa: E402

MODELS = {"2Y0A02": (ds.SharpIR2Y0A02, dss.SharpIR2Y0A02Sim), "2Y0A21": (ds.SharpIR2Y0A21, dss.SharpIR2Y0A21Sim),
          "2Y0A41": (ds.SharpIR2Y0A41, dss.SharpIR2Y0A41Sim),
          # the same three on MXP channels, and the 2Y0A41 under its legacy public name
          "2Y0A02@hi": (ds.SharpIR2Y0A02, dss.SharpIR2Y0A02Sim), "2Y0A21@hi": (ds.SharpIR2Y0A21, dss.SharpIR2Y0A21Sim),
          "2Y0A41@hi": (ds.SharpIR2Y0A41, dss.SharpIR2Y0A41Sim),
          "2Y0A41@legacy": (getattr(ds, "SharpIRGP2Y0A41SK0F", None), dss.SharpIR2Y0A41Sim)}
PORTS = {"2Y0A02": 0, "2Y0A21": 1, "2Y0A41": 2, "2Y0A02@hi": 4, "2Y0A21@hi": 5, "2Y0A41@hi": 6, "2Y0A41@legacy": 7}
SPECIAL = [(-1.0, True), (0.0, True), (-0.0, True), (1e-9, True), (0.00001, True), (7.5, False), (1e300, False),
           (float("inf"), False), (-float("inf"), True),
           # the smallest positive doubles (subnormals included) and the largest finite ones
           (5e-324, True), (2.2250738585072014e-308, True), (1e-300, True), (1e-252, True), (1.7976931348623157e308, False),
           (3e282, False), (-1.7976931348623157e308, True), (-5e-324, True)]
SIM_D = [-5.0, 0.0, 1.0, 4.4, 4.5, 4.6, 9.9, 10.0, 10.1, 17.25, 22.4, 22.5, 22.6, 30.0, 34.9, 35.0, 35.1, 50.0, 79.9, 80.0,
         80.1, 100.0, 144.9, 145.0, 145.1, 1000.0, 2000.0,
         # distances need not be floats: "getDistance() returns the d that was set"
         30, Fraction(105, 4), Fraction(100, 3)]


def ucm(x):
    if not isinstance(x, numbers.Real) or isinstance(x, bool) or math.isnan(x) or math.isinf(x):
        return -1
    return int(round(x * 1e6))


def main():
    ap = argparse.ArgumentParser()
    ap.add_argument("--out", required=True)
    a = ap.parse_args()
    out = {"obs": {}, "special": {}, "sim": {}}
    # simulated time has left zero and stands still during the sweeps (a reading depends on the voltage, not on the clock)
    import hal.simulation as hs
    hs.pauseTiming()
    hs.stepTiming(1234567)
    for name, (cls, simcls) in MODELS.items():
        if cls is None:      # the public name is gone
            out["obs"][name] = [-1] * 4096
            out["special"][name] = [{"v": repr(v), "low": low, "obs": -1, "finite": False} for v, low in SPECIAL]
            out["sim"][name] = [{"d": ucm(d), "obs": -1, "helper_ok": False} for d in SIM_D + SIM_D]
            continue
        s = cls(PORTS[name])
        sim = AnalogInputSim(s.distance)
        obs = []
        for k in range(4096):
            if k % 1024 == 700:
                hs.stepTiming(20000)
            if k % 512 == 0:
                # the reading is a function of the channel voltage alone: the supply rails of the (simulated) roboRIO
                # wander while the codes are swept
                RoboRioSim.setUserVoltage5V([5.0, 4.75, 5.2, 4.9][(k // 512) % 4])
                RoboRioSim.setVInVoltage([12.0, 7.5, 13.1][(k // 512) % 3])
                RoboRioSim.setUserVoltage3V3([3.3, 3.1][(k // 512) % 2])
                RoboRioSim.setUserActive5V((k // 512) % 3 != 1)        # (the rail's "active" flag is not the sensor's business)
            if k % 7 == 3:
                # a reading taken just before at a voltage inside the same ADC step must leave no trace
                sim.setVoltage(5.0 * k / 4096 + 0.0004)
                try:
                    s.getDistance()
                except Exception:  # noqa
                    pass
            sim.setVoltage(5.0 * k / 4096)
            try:
                obs.append(ucm(s.getDistance()))
            except Exception:  # noqa
                obs.append(-1)
        out["obs"][name] = obs
        RoboRioSim.setUserActive5V(True)
        sp = []
        for v, low in SPECIAL:
            sim.setVoltage(v)
            try:
                d = s.getDistance()
                sp.append({"v": repr(v), "low": low, "obs": ucm(d), "finite": ucm(d) >= 0})
            except Exception as e:  # noqa
                sp.append({"v": repr(v), "low": low, "obs": -1, "finite": False, "err": str(e)})
        out["special"][name] = sp
        sm = []
        RoboRioSim.setUserVoltage5V(4.8 if name.endswith("@hi") else 5.0)
        try:
            helper = simcls(s)
        except Exception as e:  # noqa  (e.g. the helper refuses the sensor object)
            out["sim"][name] = [{"d": ucm(d), "obs": -1, "helper_ok": False, "err": "helper: %s" % e} for d in SIM_D + SIM_D]
            continue
        for i, d in enumerate(SIM_D):
            try:
                # three ways to get there: a helper that has been used before, a fresh helper whose first call
                # this is (the channel still holds another voltage), and the same distance set again after the
                # channel voltage was changed behind the helper's back
                how = i % 3
                h = helper
                if how == 1:
                    sim.setVoltage(1.234)
                    h = simcls(s)
                h.setDistance(d)
                if how == 2:
                    sim.setVoltage(0.777)
                    h.setDistance(d)
                sm.append({"d": ucm(d), "obs": ucm(s.getDistance()), "helper_ok": h.getDistance() == d, "how": how})
            except Exception as e:  # noqa
                sm.append({"d": ucm(d), "obs": -1, "helper_ok": False, "err": str(e)})
        # every distance also as the very first call on a fresh helper
        for d in SIM_D:
            try:
                sim.setVoltage(2.5)
                h = simcls(s)
                h.setDistance(d)
                sm.append({"d": ucm(d), "obs": ucm(s.getDistance()), "helper_ok": h.getDistance() == d, "how": 3})
            except Exception as e:  # noqa
                sm.append({"d": ucm(d), "obs": -1, "helper_ok": False, "err": str(e)})
        out["sim"][name] = sm
    json.dump(out, open(a.out, "w"))


if __name__ == "__main__":
    main()
