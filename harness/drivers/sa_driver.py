"""Drive the real robotpy_ext.autonomous.StatefulAutonomous and record traces for specs/StatefulAuto.tla.

usage: sa_driver.py --out FILE --seed S --n N [--first-id K]   |   sa_driver.py --out FILE --scripts FILE
"""
import argparse
import itertools
import json
import logging
import os
import random
import sys

REPO = os.environ.get("VERIF_REPO", "/repo")
sys.path.insert(0, REPO)
import ntcore  # noqa: E402
from robotpy_ext.autonomous.stateful_autonomous import StatefulAutonomous, state, timed_state  # noqa: E402

logging.disable(logging.CRITICAL)
UNOBS = -1000000
BADNUM = -777777
PARAMS = ("tm", "state_tm", "initial_call")
ALL_SIGS = [list(p) for k in range(4) for p in itertools.permutations(PARAMS, k)]


def ticks(x):
    v = x * 64
    r = round(v)
    return int(r) if v == r else BADNUM


def qv(x):
    """registered variable in quarter units"""
    try:
        v = x * 4
        return int(round(v)) if v == round(v) else -777777
    except Exception:
        return -888888


def gen_shape(rng):
    k = rng.choice([1, 2, 3, 3, 4])
    names = ["s%d" % i for i in range(k)]
    durOf, nextOf = {}, {}
    for s in names:
        if rng.random() < 0.7:
            durOf[s] = rng.choice([0, 1, 2, 3, 5, 8, 64, 128])
            nextOf[s] = rng.choice(["none"] + names)
        else:
            durOf[s] = -1
            nextOf[s] = "none"
    return {"states": names, "first": rng.choice(names), "durOf": durOf, "nextOf": nextOf, "var0": rng.choice([1, 3, 4, 8, 12, 20])}


class Mode:
    def __init__(self, shape, uid, sigs, layer=None):
        self.shape = shape
        layer = layer or {}
        self.name = "SA%d_%d" % (os.getpid(), uid)
        self.cb = []
        self.action = None
        drv = self

        def _rec(self_, name, kw):
            drv.on_call(self_, name, kw)

        # the function behind a state need not carry the attribute's name (states built with the call form from helper
        # functions): the state is reached under the attribute name, its duration is '<function name>_duration'
        self.fprefix = "do_" if uid % 4 == 2 else ""

        def mkfn(name, params):
            # (every fourth mode declares its state arguments positional-only: "def s(self, tm, state_tm, /)")
            src = "def %s(self%s%s):\n    _rec(self, %r, dict(%s))\n" % (
                self.fprefix + name, "".join(", " + p for p in params), ", /" if uid % 4 == 1 else "", name,
                ", ".join("%s=%s" % (p, p) for p in params))
            ns = {"_rec": _rec}
            exec(src, ns)
            return ns[self.fprefix + name]
        def mkfn_tagged(name):
            src = "def %s(self):\n    _rec(self, %r, {})\n" % (name, name + "@sibling")
            env = {"_rec": _rec}
            exec(src, env)
            return env[name]
        ns = {"MODE_NAME": self.name}
        base_ns = {}       # states declared on a base class of the mode (layer 0); "ov": a base-class variant with another
        top_ns = ns        # duration / next state that the mode overrides
        for s in shape["states"]:
            ly = layer.get(s, "top")
            ns = base_ns if ly == "base" else top_ns
            if ly == "ov":
                base_ns[s] = timed_state(duration=7, next_state=shape["first"])(mkfn(s, []))
            fn = mkfn(s, sigs[s])
            first = s == shape["first"]
            if shape["durOf"][s] != -1:
                nx = shape["nextOf"][s]
                d = shape["durOf"][s]
                # whole seconds are written as int literals (duration=2), as user code does
                dur = d // 64 if d % 64 == 0 else d / 64.0
                ns[s] = timed_state(duration=dur, next_state=(None if nx == "none" else nx), first=first)(fn)
            elif first:
                ns[s] = state(first=True)(fn)
            else:
                ns[s] = state(fn)

        def initialize(self_):
            v0 = shape["var0"]
            self_.register_sd_var("v", v0 // 4 if v0 % 4 == 0 else v0 / 4.0)
            if uid % 5 == 3 and not self.fprefix:
                # an instance attribute that happens to carry the name of a state (a sensor, a setting ...): states are
                # what the class defines
                setattr(self_, shape["states"][-1], 123)
        ns = top_ns
        ns["initialize"] = initialize
        root = StatefulAutonomous
        if base_ns:
            # the base class is a mode in its own right (the selector would construct it too): half of the time it has
            # been instantiated before the mode under observation is
            base_ns["MODE_NAME"] = self.name + "_base"
            root = type("GenBase" + self.name, (StatefulAutonomous,), base_ns)
            if uid % 2 == 0:
                try:
                    self.base_obj = root()
                except Exception:  # noqa  (a base class without a first state cannot be built: fine)
                    self.base_obj = None
        cls = type("Gen" + self.name, (root,), ns)
        self.obj = cls()
        if base_ns:
            # a sibling mode built on the same base class and constructed later (the selector constructs every mode it
            # finds): it defines the states the observed mode defines itself, with other bodies, durations and
            # successors; nothing of it may ever show in the observed mode
            sib_ns = {"MODE_NAME": self.name + "_sib"}
            for s in shape["states"]:
                if layer.get(s, "top") != "base":
                    sib_ns[s] = timed_state(duration=9, next_state=shape["states"][-1],
                                            first=(s == shape["first"]))(mkfn_tagged(s))
            if shape["first"] not in sib_ns and layer.get(shape["first"], "top") != "base":
                pass
            try:
                self.sibling = type("GenSib" + self.name, (root,), sib_ns)()
            except Exception:  # noqa  (a sibling without a first state of its own cannot be built: fine)
                self.sibling = None
        self.table = ntcore.NetworkTableInstance.getDefault().getTable("SmartDashboard")

    def on_call(self, obj, name, kw):
        self.cb.append({"s": name,
                        "tm": ticks(kw["tm"]) if "tm" in kw else UNOBS,
                        "stm": ticks(kw["state_tm"]) if "state_tm" in kw else UNOBS,
                        "ic": (1 if kw["initial_call"] is True else 0 if kw["initial_call"] is False else 7)
                        if "initial_call" in kw else -1,
                        "v": qv(getattr(obj, "v", -1))})
        a = self.action
        if a and a.get("av", -1) != -1:
            obj.v = a["av"] / 4.0                  # the state function counts the registered variable down, ...
        if a and a.get("ad", -1) != -1 and self.shape["durOf"].get(name.split("@")[0], -1) != -1:
            setattr(obj, self.fprefix + name + "_duration", a["ad"] / 64.0)      # ... or hurries itself up
        if a and a["act"] == "ns":
            obj.next_state(a["s"])
        elif a and a["act"] == "done":
            obj.done()

    def apply(self, ev):
        k = ev["e"]
        o = self.obj
        self.cb = []
        if k == "enable":
            o.on_enable()
            durs = {s: ticks(getattr(o, self.fprefix + s + "_duration")) for s in self.shape["states"] if self.shape["durOf"][s] != -1}
            return {"cb": [], "dur": durs, "v": qv(o.v)}
        if k == "disable":
            o.on_disable()
            return {"cb": []}
        if k == "sibling":
            # a whole autonomous period of the sibling mode (same base class), ended in the middle of a state
            sib = getattr(self, "sibling", None)
            if sib is not None:
                saved, self.cb = self.cb, []
                try:
                    sib.on_enable()
                    for j in range(1, 4):
                        sib.on_iteration(j * 0.125)
                    sib.on_disable()
                finally:
                    self.cb = saved
            return {"cb": []}
        if k == "sdw":
            self.table.putNumber("%s\\%s_duration" % (self.name, self.fprefix + ev["s"]), ev["d"] / 64.0)
            return {"cb": []}
        if k == "varw":
            self.table.putNumber("%s\\v" % self.name, ev["v"] / 4.0)
            return {"cb": []}
        if k == "iter":
            self.action = ev
            o.on_iteration(ev["tm"] / 64.0)
            self.action = None
            return {"cb": self.cb}
        raise ValueError(ev)


def random_events(rng, shape, n):
    timed = [s for s in shape["states"] if shape["durOf"][s] != -1]
    evs = []
    clk = 0
    enabled = False
    style = rng.choice(["steady", "steady", "erratic"])
    period = rng.choice([1, 1, 2, 3])
    for _ in range(n):
        r = rng.random()
        if not enabled or r < 0.04:
            if rng.random() < 0.3:
                evs.append({"e": "sibling"})
            evs.append({"e": "enable"})
            enabled = True
            clk = 0
            continue
        if r < 0.07:
            evs.append({"e": "disable"})
            continue
        if r < 0.11 and timed:
            evs.append({"e": "sdw", "s": rng.choice(timed), "d": rng.choice([0, 1, 2, 4, 6, 40, 64, 100, 176])})
            continue
        if r < 0.13:
            evs.append({"e": "varw", "v": rng.choice([1, 2, 3, 4, 6, 8, 11, 16])})
            continue
        clk += period if style == "steady" and rng.random() < 0.9 else rng.choice([0, 1, 1, 2, 3, 5, 8, 13, 30, 70])
        a = rng.random()
        if a < 0.10:
            act, s = "ns", rng.choice(shape["states"])
        elif a < 0.14:
            act, s = "done", "none"
        else:
            act, s = "none", "none"
        w = rng.random()
        evs.append({"e": "iter", "tm": clk, "act": act, "s": s,
                    "av": rng.choice([1, 2, 5, 9]) if w < 0.06 else -1, "ad": rng.choice([0, 1, 3, 70]) if 0.06 <= w < 0.12 else -1})
    return evs


_uid = itertools.count()


def run_trace(tid, shape, events, sigs, layer=None):
    try:
        m = Mode(shape, next(_uid), sigs, layer)
    except Exception as e:  # noqa  - defining / constructing the mode raised
        return {"id": tid, "shape": shape, "extra": {"sigs": sigs},
                "steps": [{"in": {"e": "raised"}, "out": {"cb": [], "err": "%s: %s" % (type(e).__name__, e)}}]}
    steps = []
    for ev in events:
        ev = {k: v for k, v in ev.items() if k != "x"}
        try:
            out = m.apply(ev)
        except Exception as e:
            steps.append({"in": {"e": "raised"}, "out": {"cb": [], "err": "%s: %s" % (type(e).__name__, e), "at": ev}})
            break
        steps.append({"in": ev, "out": out})
    return {"id": tid, "shape": shape, "extra": {"sigs": sigs, "layer": layer or {}}, "steps": steps}


def main():
    ap = argparse.ArgumentParser()
    ap.add_argument("--out", required=True)
    ap.add_argument("--seed", type=int, default=0)
    ap.add_argument("--n", type=int, default=100)
    ap.add_argument("--first-id", type=int, default=1)
    ap.add_argument("--scripts")
    a = ap.parse_args()
    traces = []
    if a.scripts:
        for j in json.load(open(a.scripts)):
            sh = j["shape"]
            sigs = (j.get("extra") or {}).get("sigs") or {s: list(PARAMS) for s in sh["states"]}
            traces.append(run_trace(j["id"], sh, j["events"], sigs, (j.get("extra") or {}).get("layer")))
    else:
        rng = random.Random(a.seed)
        for i in range(a.n):
            sh = gen_shape(rng)
            sigs = {s: rng.choice(ALL_SIGS) for s in sh["states"]}
            layer = {s: rng.choice(["top", "top", "base", "ov"]) for s in sh["states"]} if rng.random() < 0.5 else {}
            traces.append(run_trace(a.first_id + i, sh, random_events(rng, sh, rng.choice([30, 60, 120])), sigs, layer))
    json.dump(traces, open(a.out, "w"))


if __name__ == "__main__":
    main()
