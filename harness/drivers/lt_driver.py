"""Drive the real robotpy_ext.misc.looptimer.LoopTimer on the simulated FPGA clock (ticks of 1/64 s) with a
recording logger.

usage: lt_driver.py --out FILE --seed S --n N [--first-id K]   |   lt_driver.py --out FILE --scripts FILE
"""
import argparse
import json
import os
import random
import sys

REPO = os.environ.get("VERIF_REPO", "/repo")
sys.path.insert(0, REPO)
import hal.simulation as hs  # noqa: E402
from robotpy_ext.misc.looptimer import LoopTimer  # noqa: E402

TICK_US = 15625


class Recorder:
    def __init__(self):
        self.recs = []

    def info(self, fmt, *args):
        self.recs.append((fmt, args))

    debug = warning = error = info


def ticks(x, scale=1):
    """seconds -> ticks (times scale); None when the value is not on the grid"""
    v = x * 64 * scale
    r = round(v)
    return r if abs(v - r) < 1e-6 else None


def run_trace(tid, events):
    hs.pauseTiming()
    log = Recorder()
    lt = None
    steps = []
    for ev in events:
        ev = {k: v for k, v in ev.items() if k != "x"}
        k = ev["e"]
        before = len(log.recs)
        try:
            if k == "tick":
                hs.stepTimingAsync(ev["d"] * TICK_US)
            elif k == "new":
                lt = LoopTimer(log)
            elif k == "reset":
                lt.reset()
            elif k == "measure":
                lt.measure()
        except Exception as e:  # noqa - nothing is specified to raise
            steps.append({"in": {"e": "raised"}, "out": {"msg": "%s: %s at %s" % (type(e).__name__, e, ev)}})
            break
        new = log.recs[before:]
        out = {"r": False, "loops": 0, "mn": 0, "mx": 0, "period": 0, "avgn": 0, "err": False}
        if len(new) > 1:
            out["err"] = True
        if new:
            fmt, args = new[0]
            try:
                fmt % args          # the record must be printable
                n, mn, mx, period, avg = args
                vals = [ticks(mn), ticks(mx), ticks(period), ticks(avg, n)]
                if any(v is None for v in vals) or int(n) != n:
                    out["err"] = True
                else:
                    out.update(r=True, loops=int(n), mn=vals[0], mx=vals[1], period=vals[2], avgn=vals[3])
            except Exception:  # noqa
                out["err"] = True
        if k == "measure":
            ev["tie"] = bool(new)       # only looked at when exactly one second has passed (see LoopTimer.tla)
        steps.append({"in": ev, "out": out})
    return {"id": tid, "shape": {"none": 0}, "steps": steps}


def random_events(rng):
    evs = [{"e": "tick", "d": rng.choice([0, 1, 5, 64, 100])}] if rng.random() < 0.5 else []
    evs.append({"e": "new"})
    style = rng.choice(["steady", "steady", "jitter", "stall", "tie"])
    for _ in range(rng.randint(5, 120)):
        r = rng.random()
        if r < 0.02:
            evs.append({"e": "reset"})
            continue
        if r < 0.03:
            evs.append({"e": "new"})
            continue
        if style == "steady":
            d = 1
        elif style == "jitter":
            d = rng.choice([0, 1, 1, 2, 3])
        elif style == "tie":
            d = rng.choice([1, 2, 4, 8, 16, 32, 64])
        else:
            d = rng.choice([1, 1, 1, 1, 70, 200, 64, 130])
        evs.append({"e": "tick", "d": d})
        evs.append({"e": "measure", "tie": True})
    return evs


def main():
    ap = argparse.ArgumentParser()
    ap.add_argument("--out", required=True)
    ap.add_argument("--seed", type=int, default=0)
    ap.add_argument("--n", type=int, default=100)
    ap.add_argument("--first-id", type=int, default=1)
    ap.add_argument("--scripts")
    a = ap.parse_args()
    hs.pauseTiming()
    hs.restartTiming()
    traces = []
    if a.scripts:
        for j in json.load(open(a.scripts)):
            traces.append(run_trace(j["id"], j["events"]))
    else:
        rng = random.Random(a.seed)
        for i in range(a.n):
            traces.append(run_trace(a.first_id + i, random_events(rng)))
    json.dump(traces, open(a.out, "w"))


if __name__ == "__main__":
    main()
