"""C12: validity of StateMachine definitions against specs/SMDef.tla (enumerated universe -> generated classes)."""
import json
import os

from . import tlc
from .common import Outcome, parallel, run_driver
from .tlc import MachineryError

INV = ["C12_InstantiableIff", "C12_OverrideWins", "C12_BaseFirst"]


def cfg(names, total, per):
    return ("SPECIFICATION Spec\nCONSTANTS\n  Names = {%s}\n  MaxTotal = %d\n  MaxPerClass = %d\n" % (
        ", ".join('"%s"' % n for n in names), total, per)
        + "".join("INVARIANT %s\n" % i for i in INV) + "CONSTRAINT Emit\nCHECK_DEADLOCK FALSE\n")


def judge_case(c, exp, o):
    """-> list of failing clauses"""
    if "machinery" in o:
        raise MachineryError("smdef driver: %s" % o["machinery"])
    if "skipped" in o:
        return None
    k = c["k"]
    if k == "hier":
        if "define_error" in o:
            return ["class_definition_raised"]
        if exp["inst_errors"]:
            return [] if o.get("error") in exp["inst_errors"] else ["instantiation_error"]
        f = []
        if o.get("error") is not None:
            return ["instantiation_error"]
        if o.get("names") != exp["names"]:
            f.append("state_names")
        if o.get("descr") != exp["descr"]:
            f.append("state_descriptions")
        return f
    if k in ("sig", "name"):
        if exp["accepted"]:
            return [] if o["error"] is None else ["rejected_but_legal"]
        want = "ValueError" if k == "sig" else "InvalidStateName"
        return [] if o["error"] == want else ["accepted_but_illegal" if o["error"] is None else "wrong_error"]
    return [] if o["error"] == exp["error"] else ["wrong_error" if o["error"] else "not_rejected"]


def check(prop, tier):
    out = Outcome(prop, tier)
    wd = tlc.workdir("smdef")
    attrs = os.path.join(wd, "attrs.json")
    run_driver("smdef_driver.py", ["--attrs", attrs], cwd=wd)
    if tier == "quick":
        c = cfg(["a", "_b"], 3, 2)          # a leading underscore is a legal state name
    else:
        c = cfg(["a", "_b", "c"], 3, 2)
    r = tlc.run("SMDef", c, env={"SM_ATTRS": attrs}, workers=1, heap="8g", timeout=7200, tag="smdef")
    tlc.require_clean(r, "SMDef")
    out.add_mc("SMDef (enumerated universe of definitions; merge/override laws)", r)
    emitted = {}
    for x in tlc.tagged(r, "S"):
        emitted[json.dumps(x["case"], sort_keys=True)] = x
    cases = list(emitted.values())
    if len(cases) < 100:
        raise MachineryError("SMDef.tla emitted only %d cases" % len(cases))
    nchunk = 8
    chunks = [cases[i::nchunk] for i in range(nchunk)]

    def one(ch):
        d = tlc.workdir("smdefdrv")
        cp, op = os.path.join(d, "cases.json"), os.path.join(d, "out.json")
        json.dump([x["case"] for x in ch], open(cp, "w"))
        run_driver("smdef_driver.py", ["--cases", cp, "--out", op], cwd=d)
        return json.load(open(op))
    results = parallel([(lambda ch=ch: one(ch)) for ch in chunks])
    # canary: a wrong expectation must be noticed
    probe = next(x for x in cases if x["case"]["k"] == "hier" and not x["exp"]["inst_errors"] and x["exp"]["names"])
    if judge_case(probe["case"], dict(probe["exp"], names=list(reversed(probe["exp"]["names"])) + ["zz"]),
                  {"error": None, "names": probe["exp"]["names"], "descr": probe["exp"]["descr"]}) == []:
        raise MachineryError("comparison accepts a wrong expectation")
    bad = 0
    ran = 0
    skipped = 0
    kinds = {}
    nontriv = 0
    for ch, res in zip(chunks, results):
        for x, o in zip(ch, res):
            f = judge_case(x["case"], x["exp"], o)
            if f is None:
                skipped += 1
                continue
            ran += 1
            k = x["case"]["k"]
            kinds[k] = kinds.get(k, 0) + 1
            if k != "hier" or sum(len(b) for b in x["case"]["cls"]) >= 2:
                nontriv += 1
            if f:
                bad += 1
                if bad <= 3:
                    out.violation("definition %s: %s: required %s, the library did %s" % (
                        json.dumps(x["case"]), f, json.dumps(x["exp"]), json.dumps(o)),
                        {"kind": "case_mismatch", "module": "SMDef", "property": prop, "case": x["case"], "expected": x["exp"],
                         "observed": o, "fails": f, "key": {"module": "SMDef", "clause": f[0], "k": x["case"]["k"]}})
    out.cov["traces_validated_against_impl"] = ran
    out.cov["evaluations"] = ran
    out.cov["distinct_nontrivial"] = nontriv
    out.cov["exhaustive"] = True
    out.cov["rule"] = ("TLC enumerates every class hierarchy (single, linear 2/3, diamond, mix-in) whose classes hold members drawn "
                       "from names x {state, state(first), timed, timed(first), default, plain override} within the bounds, every "
                       "parameter list of up to 4 distinct parameters over {self, tm, state_tm, initial_call, x, *args, **kwargs, "
                       "keyword-only} x 4 decorators, every identifier in dir(StateMachine) as a state name x 4 decorators, and the "
                       "alias / non-StateMachine owner / direct-call cases; each is built with the real library; non-trivial = not a "
                       "hierarchy with fewer than two members; all cases distinct")
    out.cov["samples"] = [{"case": x["case"], "required": x["exp"]} for x in (cases[0], cases[len(cases) // 2], cases[-1])]
    out.notes["cases_by_kind"] = kinds
    out.notes["skipped_python_rejects"] = skipped
    out.assumptions += ["the attribute names of StateMachine are read from the class under test (dir(StateMachine))",
                        "when several instantiation errors apply, any of them is accepted",
                        "a state function with no parameters at all is accepted by the library today; C12 only speaks of 'a first parameter other than self' (adopted)",
                        "the order in which Python linearises the generated hierarchies (MRO) is checked against the order the specification assumes"]
    return out.finish()


def replay(path):
    rp = json.load(open(path))
    d = tlc.workdir("smdefreplay")
    cp, op = os.path.join(d, "cases.json"), os.path.join(d, "out.json")
    json.dump([rp["case"]], open(cp, "w"))
    run_driver("smdef_driver.py", ["--cases", cp, "--out", op], cwd=d)
    o = json.load(open(op))[0]
    f = judge_case(rp["case"], rp["expected"], o)
    print("replay: required %s observed %s -> %s" % (json.dumps(rp["expected"]), json.dumps(o), f or "agrees"))
    if f:
        print("VIOLATION property=%s replay=%s" % (rp["property"], path))
        return 1
    return 0
