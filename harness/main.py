"""Entry point: ./check <Cxx> quick|thorough | ./check --replay <file>.
exit 0 held / 1 violation (VIOLATION line) / 2 machinery failure."""
import json
import os
import sys
import traceback

from . import tlc
from .tlc import MachineryError

SM = {"C01", "C02", "C03", "C04", "C13"}
ROBOT = {"C05", "C06", "C07", "C10", "C11"}


def dispatch(prop, tier):
    if prop in SM:
        from . import sm_check
        return sm_check.check(prop, tier)
    if prop in ROBOT:
        from . import robot_check
        return robot_check.check(prop, tier)
    if prop == "C15":
        from . import sa_check
        return sa_check.check(prop, tier)
    if prop == "C20":
        from . import crc_check
        return crc_check.check(prop, tier)
    if prop == "C16":
        from . import nd_check
        return nd_check.check(prop, tier)
    if prop == "C19":
        from . import ctl_check
        return ctl_check.check(prop, tier)
    if prop == "C18":
        from . import units_check
        return units_check.check(prop, tier)
    if prop == "C17":
        from . import ir_check
        return ir_check.check(prop, tier)
    if prop == "C09":
        from . import tun_check
        return tun_check.check(prop, tier)
    if prop == "C12":
        from . import smdef_check
        return smdef_check.check(prop, tier)
    if prop == "C08":
        from . import inject_check
        return inject_check.check(prop, tier)
    if prop == "C14":
        from . import sel_check
        return sel_check.check(prop, tier)
    if prop == "X01":
        from . import extras_check
        return extras_check.check(prop, tier)
    raise MachineryError("no check for %s" % prop)


def main(argv):
    try:
        if len(argv) >= 2 and argv[0] == "--replay":
            rp = json.load(open(argv[1]))
            mod = rp.get("module")
            if mod == "MagicSM":
                from . import sm_check
                return sm_check.replay(argv[1])
            if mod == "MagicRobot":
                from . import robot_check
                return robot_check.replay(argv[1])
            if mod == "StatefulAuto":
                from . import sa_check
                return sa_check.replay(argv[1])
            if mod == "LoopTimer":
                from . import extras_check
                return extras_check.replay(argv[1])
            if mod == "Crc7":
                from . import crc_check
                return crc_check.replay(argv[1])
            if mod == "NotifierDelay":
                from . import nd_check
                return nd_check.replay(argv[1])
            if mod == "Controls":
                from . import ctl_check
                return ctl_check.replay(argv[1])
            if mod == "Units":
                from . import units_check
                return units_check.replay(argv[1])
            if mod == "SharpIR":
                from . import ir_check
                return ir_check.replay(argv[1])
            if mod == "Tunable":
                from . import tun_check
                return tun_check.replay(argv[1])
            if mod == "SMDef":
                from . import smdef_check
                return smdef_check.replay(argv[1])
            if mod == "Inject":
                from . import inject_check
                return inject_check.replay(argv[1])
            if mod in ("Selector", "SelectorDisc"):
                from . import sel_check
                return sel_check.replay(argv[1])
            raise MachineryError("cannot replay module %s" % mod)
        prop = argv[0]
        tier = argv[1] if len(argv) > 1 else os.environ.get("VERIF_TIER", "quick")
        return dispatch(prop, tier)
    except MachineryError as e:
        print("MACHINERY-FAILURE: %s" % e, flush=True)
        return 2
    except Exception:
        traceback.print_exc()
        print("MACHINERY-FAILURE: unexpected exception", flush=True)
        return 2
    finally:
        tlc.cleanup()


if __name__ == "__main__":
    sys.exit(main(sys.argv[1:]))
