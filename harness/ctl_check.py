"""C19: Toggle, ButtonDebouncer, PeriodicFilter, SimpleWatchdog against specs/Controls.tla."""
import copy

from . import generic
from .tlc import MachineryError

INV = ["C19_WdExpiry", "EnabledAgrees"]
PROPS = ["C19_FlipIffEdge", "C19_DebounceSpacing", "C19_BdSpacing", "C19_BdFiresWhenDue", "C19_PfSpacing",
         "C19_WdPrintSpacing"]


def mc_cfg(kinds, *, dev="{}", periods="{0, 2, 3}", steps="{1, 2, 5}", maxnow=16, level=12, inv=INV, props=PROPS):
    ks = "{" + ", ".join('"%s"' % k for k in kinds) + "}"
    lines = ["SPECIFICATION MCSpec", "CONSTANTS", "  Dev = %s" % dev, "  Kinds = %s" % ks, "  Periods = %s" % periods,
             "  Steps = %s" % steps, "  MaxNow = %d" % maxnow, "  MaxLevel = %d" % level, "CONSTRAINT Bound"]
    lines += ["INVARIANT %s" % i for i in inv] + ["PROPERTY %s" % p for p in props] + ["CHECK_DEADLOCK FALSE"]
    return "\n".join(lines) + "\n"


class CTL(generic.Desc):
    name = "Controls"
    mc_module = "MC_Controls"
    sim_module = "Sim_Controls"
    trace_module = "Trace_Controls"
    driver = "ctl_driver.py"
    rule = ("a trace is one helper object (Toggle with/without debounce, ButtonDebouncer, PeriodicFilter, SimpleWatchdog; "
            "random period/bypass/timeout) and a sequence of (clock advance, button level, accessor | log record level | "
            "watchdog call) samples; non-trivial when a rate limit actually suppressed something in it (debounce hold, "
            "suppressed press, dropped record, suppressed watchdog print) or a toggle flipped; distinct by hash of (shape, inputs)")
    assumptions = ["simulated FPGA clock exact on the 1/64 s grid; time.monotonic inside periodic_filter replaced by a fake clock on the same grid",
                   "before the first reset() the watchdog's expiry instant is 0 (adopted as implemented; C19 speaks of 'since the last reset')",
                   "ButtonDebouncer starts with latest = 0, so a press during the first period of FPGA time is not reported (as implemented)"]

    def tiers(self):
        return {"quick": dict(n_random=800, drivers=4, n_sim=300), "thorough": dict(n_random=40000, drivers=16, n_sim=6000)}

    def mc_runs(self, prop, tier):
        if tier == "quick":
            return [("toggle,bd,pf", mc_cfg(["toggle", "bd", "pf"], maxnow=14, level=11), 8, "6g"),
                    ("wd", mc_cfg(["wd"], periods="{2}", steps="{1, 13, 64, 70}", maxnow=300, level=9), 8, "6g")]
        return [("toggle,bd,pf", mc_cfg(["toggle", "bd", "pf"], maxnow=22, level=15), 16, "16g"),
                ("wd", mc_cfg(["wd"], periods="{2}", steps="{1, 13, 64, 70}", maxnow=400, level=12), 16, "16g")]

    def teeth(self, prop):
        return [("toggle_no_edge", mc_cfg(["toggle"], dev='{"toggle_no_edge"}'), {"C19_FlipIffEdge", "C19_DebounceSpacing"}),
                ("bd_no_period", mc_cfg(["bd"], dev='{"bd_no_period"}'), {"C19_BdSpacing"}),
                ("wd_no_ratelimit", mc_cfg(["wd"], dev='{"wd_no_ratelimit"}', periods="{2}", steps="{1, 13, 64, 70}",
                                           maxnow=300, level=9), {"C19_WdPrintSpacing"})]

    def probes(self, prop):
        return [("Probe_TwoFlips", mc_cfg(["toggle"], inv=["Probe_TwoFlips"], props=[])),
                ("Probe_TwoTrues", mc_cfg(["bd"], inv=["Probe_TwoTrues"], props=[])),
                ("Probe_TwoLow", mc_cfg(["pf"], inv=["Probe_TwoLow"], props=[])),
                ("Probe_TwoPrints", mc_cfg(["wd"], periods="{2}", steps="{1, 13, 64, 70}", maxnow=300, level=9,
                                           inv=["Probe_TwoPrints"], props=[]))]

    def sim_run(self, prop, tier, sd):
        depth = 40 if tier == "quick" else 100
        cfg = "\n".join(["SPECIFICATION SimSpec", "CONSTANTS", "  Dev = {}", '  Kinds = {"toggle", "bd", "pf", "wd"}',
                         "  Periods = {0, 2, 3, 8}", "  Steps = {1, 2, 5, 13, 64, 70}", "  MaxNow = 1000000", "  MaxLevel = 1000000",
                         "  SimDepth = %d" % depth, "CONSTRAINT Emit", "CONSTRAINT SimStop", "CHECK_DEADLOCK FALSE"]) + "\n"
        return cfg, "num=%d" % (40 if tier == "quick" else 800), depth + 2

    def canary(self, prop, traces):
        for t in traces:
            for i, st in enumerate(t["steps"]):
                if st["in"]["e"] in ("sample", "bget", "rec", "expired") and isinstance(st["out"]["r"], bool):
                    c = copy.deepcopy(t)
                    c["id"] = 999999999
                    c["steps"][i]["out"]["r"] = not st["out"]["r"]
                    c["steps"] = c["steps"][:i + 1]
                    return c
        raise MachineryError("no trace suitable for a canary")

    def nontrivial(self, prop, v, t):
        return bool(set(v.get("seen", [])) & {"flip", "db_hold", "bd_suppressed", "pf_drop", "wd_print_suppressed"})

    def required_tags(self, prop):
        return {"flip", "db_hold", "bd_true", "bd_suppressed", "pf_low_pass", "pf_drop", "wd_print", "wd_print_suppressed"}


def check(prop, tier):
    import concurrent.futures as cf
    from . import apalache
    with cf.ThreadPoolExecutor(max_workers=1) as ex:
        # unbounded, model level: the spacing clauses are inductive for any period / clock pattern / history length
        fut = ex.submit(apalache.induction, "Ctl_Ind", ["Ctl_Ind.tla"],
                        teeth=("level /\\ now - bdLatest > P IN", "level /\\ now - bdLatest >= P IN"))

        class WithApalache(CTL):
            def extras(self, prop, tier, out):
                out.notes["apalache_inductive_invariant"] = fut.result(timeout=1500)
        return generic.run_check(WithApalache(), prop, tier)


def replay(path):
    return generic.replay(CTL(), path)
