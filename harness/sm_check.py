"""C01 C02 C03 C04 C13: magicbot.StateMachine / AutonomousStateMachine against specs/MagicSM.tla."""
import copy
import json
import os
import random

from . import accept, tlc
from .common import Outcome, log, parallel, run_driver, seed, trace_key
from .tlc import MachineryError

INVARIANTS = [
    "C01_IdleIterationLeavesNothing", "C01_ExactlyOne", "C03_NonNegative", "C02_WithinDuration",
    "C04_StoppedMeansReset", "C04_RunningMeansExecuting", "C13_NeverCycles",
    "C13_LatchFollowsExecuting", "C13_OffMeansNotExecuting", "C13_EnableRestarts", "EnabledAgrees",
]
ACTION_PROPS = [
    "C01_RegularOnlyWhenRequested", "C01_StopsWithoutRequest", "C01_NoDefaultWhileRequested",
    "C02_SuccessorStartsAtExpiry", "C02_CycleRestartsAtExpiry", "C04_StopCallsDone",
    "C04_RestartAtZero", "C13_SilentWhenOff",
]

# deviation -> (shape, invariants/properties one of which TLC must report)
TEETH = {
    "C01": [("no_deactivate", "S1", {"C01_StopsWithoutRequest", "C01_RegularOnlyWhenRequested",
                                      "C01_IdleIterationLeavesNothing"}),
            ("nested_consumes_request", "S1", {"C01_ExactlyOne", "C01_NoDefaultWhileRequested"}),
            ("nested_consumes_request", "S2", {"C01_ExactlyOne", "C01_NoDefaultWhileRequested"})],
    "C02": [("cycle_no_restart", "S6", {"C02_CycleRestartsAtExpiry", "C03_NonNegative"})],
    "C03": [("cycle_no_restart", "S1", {"C02_CycleRestartsAtExpiry", "C03_NonNegative"})],
    "C04": [("default_no_done", "S2", {"C04_StoppedMeansReset", "C04_StopCallsDone"}),
            ("cycle_no_restart", "S6", {"C04_RunningMeansExecuting", "C02_CycleRestartsAtExpiry",
                                        "C03_NonNegative"})],
    "C13": [("auto_keeps_request", "A3", {"C13_NeverCycles"}),
            ("enable_keeps_running", "A1", {"C13_EnableRestarts"})],
}
# reachability probes that TLC must falsify: (probe, shape)
PROBES = {
    "C01": [("Probe_Deactivate", "S1"), ("Probe_MustFinishRunsUnrequested", "S2"), ("Probe_Nested", "S1"),
            ("Probe_DefaultEnter", "S2")],
    "C02": [("Probe_Cycle", "S1"), ("Probe_ExpireNext", "S1"), ("Probe_ExpireStop", "S1")],
    "C03": [("Probe_Cycle", "S6"), ("Probe_Nested", "S2")],
    "C04": [("Probe_DefaultEnter", "S3"), ("Probe_ExpireStop", "S4"), ("Probe_Deactivate", "S5")],
    "C13": [("Probe_ExpireStop", "A1"), ("Probe_AutoIdle", "A3")],
}
KEY_BRANCHES = {
    "C01": {"Deactivate", "NoState", "DefaultEnter", "EarlyReturn"},
    "C02": {"ExpireNext", "ExpireLastCycle", "ExpireLastStop"},
    "C03": {"ExpireLastCycle", "ExpireNext", "DefaultEnter", "Start"},
    "C04": {"ExpireLastStop", "NoState", "DefaultEnter", "Deactivate", "ExpireLastCycle"},
    "C13": {"ExpireLastStop", "AutoIdle"},
}


def mc_cfg(shapes, *, dev="{}", steps="{1, 2, 5}", durs="{1}", maxrel=7, depth=2, level=12, useinit="TRUE", acts=2,
           invariants=INVARIANTS, props=ACTION_PROPS, useraise="TRUE"):
    names = "{" + ", ".join('"%s"' % s for s in shapes) + "}"
    lines = ["SPECIFICATION MCSpec", "CONSTANTS", "  Dev = %s" % dev, "  ShapeNames = %s" % names,
             "  Steps = %s" % steps, "  DurChoices = %s" % durs, "  MaxRel = %d" % maxrel,
             "  MaxDepth = %d" % depth, "  MaxLevel = %d" % level, "  UseInit = %s" % useinit, "  MaxActs = %d" % acts,
             "  UseRaise = %s" % useraise, "CONSTRAINT Bound", "VIEW MCView"]
    lines += ["INVARIANT %s" % i for i in invariants]
    lines += ["PROPERTY %s" % p for p in props]
    lines += ["CHECK_DEADLOCK FALSE"]
    return "\n".join(lines) + "\n"


def sim_cfg(shapes, depth, *, useinit="TRUE", maxrel=60):
    names = "{" + ", ".join('"%s"' % s for s in shapes) + "}"
    return "\n".join([
        "SPECIFICATION SimSpec", "CONSTANTS", "  Dev = {}", "  ShapeNames = %s" % names,
        "  Steps = {1, 2, 5}", "  DurChoices <- SimDurs", "  MaxRel = %d" % maxrel, "  MaxDepth = 3",
        "  MaxLevel = 1000", "  UseInit = %s" % useinit, "  MaxActs = 3", "  UseRaise = TRUE", "  SimDepth = %d" % depth,
        "CONSTRAINT Emit", "CONSTRAINT SimBound", "CHECK_DEADLOCK FALSE"]) + "\n"


def trace_cfg(prop, dev="{}"):
    return "\n".join([
        "SPECIFICATION TSpec", "CONSTANTS", "  Dev = %s" % dev, '  Prop = "%s"' % prop,
        "CONSTRAINT Report", "CHECK_DEADLOCK FALSE"]) + "\n"


TIERS = {
    # random traces, length, sim behaviours, mc level, mc maxrel
    "quick": dict(n_random=640, length=40, n_sim=240, sim_depth=28, level=12, maxrel=7, depth=2,
                  mc_workers=12, drivers=8),
    "thorough": dict(n_random=24000, length=80, n_sim=6000, sim_depth=40, level=17, maxrel=9, depth=2,
                     mc_workers=16, drivers=16),
}


# Directed histories of known findings (known_findings.json): replayed on the tree the check runs on.  (F8, now fixed
# as D11: kept as a regression.)
F8_SHAPE = {"states": ["a", "m", "d"], "first": "a", "default": "d", "auto": False, "mf": ["m"],
            "durOf": {"a": -1, "m": -1, "d": -1}, "nextOf": {"a": "none", "m": "none", "d": "none"}}
F8_EVENTS = [
    {"e": "engage", "init": "none", "force": False, "depth": 0}, {"e": "execute", "depth": 0},
    {"e": "done", "depth": 1}, {"e": "ns", "s": "m", "depth": 1}, {"e": "ret", "depth": 1},
    {"e": "tick", "d": 1, "depth": 0}, {"e": "execute", "depth": 0}, {"e": "ret", "depth": 1},
    {"e": "tick", "d": 2, "depth": 0}, {"e": "engage", "init": "none", "force": False, "depth": 0},
    {"e": "execute", "depth": 0}, {"e": "ret", "depth": 1},
]
DIRECTED = {"C02": [("F8", F8_SHAPE, F8_EVENTS)], "C03": [("F8", F8_SHAPE, F8_EVENTS)]}


def design_check(prop, tier, out):
    """Exhaustive TLC runs: the specification satisfies the properties (Dev = {}), the invariants have
    teeth (each deviation is caught) and their antecedents are reachable (probes are falsified)."""
    p = TIERS[tier]
    auto = prop == "C13"
    shapes = ["A1", "A2", "A3"] if auto else ["S1", "S2", "S3", "S4", "S5", "S6"]
    jobs = []

    def main_run():
        r = tlc.run("MC_MagicSM", mc_cfg(shapes, level=p["level"], maxrel=p["maxrel"], depth=p["depth"]),
                    workers=p["mc_workers"], heap="12g", timeout=7200, tag="mc")
        tlc.require_clean(r, "MC_MagicSM %s" % shapes)
        return ("mc", r)
    jobs.append(main_run)
    for dev, shape, expect in TEETH[prop]:
        def teeth(dev=dev, shape=shape, expect=expect):
            r = tlc.run("MC_MagicSM", mc_cfg([shape], dev='{"%s"}' % dev, level=14, maxrel=9),
                        workers=2, heap="2g", timeout=900, tag="teeth")
            if r.violated not in expect:
                raise MachineryError("deviation %s on %s was not caught by %s (TLC said: %s)" % (
                    dev, shape, sorted(expect), r.violated or r.summary()))
            return ("teeth:%s" % dev, r)
        jobs.append(teeth)
    for probe, shape in PROBES[prop]:
        def pr(probe=probe, shape=shape):
            r = tlc.run("MC_MagicSM", mc_cfg([shape], level=14, maxrel=9, invariants=[probe], props=[]),
                        workers=1, heap="2g", timeout=900, tag="probe")
            if r.violated != probe:
                raise MachineryError("probe %s on %s is unreachable: the invariants it guards are vacuous" % (
                    probe, shape))
            return ("probe:%s" % probe, r)
        jobs.append(pr)
    res = parallel(jobs, max_workers=6)
    for name, r in res:
        if name == "mc":
            out.add_mc("MC_MagicSM[%s]" % ",".join(shapes), r)
        else:
            out.notes.setdefault("teeth_and_probes", []).append({"name": name, "found": r.violated,
                                                                 "states": r.distinct})


def gen_traces(prop, tier, sd):
    """code -> spec: random histories; spec -> code: TLC-simulated behaviours replayed on the code."""
    p = TIERS[tier]
    auto = prop == "C13"
    nd = p["drivers"]
    per = p["n_random"] // nd
    wd = tlc.workdir("traces")

    def rnd(k):
        path = os.path.join(wd, "r%d.json" % k)
        run_driver("sm_driver.py", ["--out", path, "--seed", sd * 1000 + k, "--n", per, "--len", p["length"],
                                    "--auto", "1" if auto else ("0" if prop == "C01" else "some"), "--first-id", 1 + k * per])
        return json.load(open(path))

    def sim():
        shapes = ["A1", "A2", "A3"] if auto else ["S1", "S2", "S3", "S4", "S5", "S6"]
        num = max(20, p["n_sim"] // 8)
        r = tlc.run("Sim_MagicSM", sim_cfg(shapes, p["sim_depth"]), workers=1, heap="2g", timeout=1800,
                    simulate="num=%d" % num, depth=p["sim_depth"] + 1, seed=sd + 1, tag="sim")
        scripts = tlc.tagged(r, "S")
        if len(scripts) < 10:
            raise MachineryError("simulation produced %d behaviours\n%s" % (len(scripts), r.out[-2000:]))
        rng = random.Random(sd)
        rng.shuffle(scripts)
        scripts = scripts[:p["n_sim"]]
        jobs = []
        for i, s in enumerate(scripts):
            jobs.append({"id": 1000000 + i, "shape": s["shape"], "events": s["events"]})
        for i, (fid, shape, events) in enumerate(DIRECTED.get(prop, [])):
            jobs.append({"id": 3000000 + i, "shape": shape, "events": events, "directed": fid})
        outs = []
        chunks = [jobs[i::4] for i in range(4)]

        def one(k, ch):
            jp = os.path.join(wd, "jobs%d.json" % k)
            op = os.path.join(wd, "s%d.json" % k)
            json.dump(ch, open(jp, "w"))
            run_driver("sm_driver.py", ["--out", op, "--scripts", jp])
            return json.load(open(op))
        for part in parallel([(lambda k=k, ch=ch: one(k, ch)) for k, ch in enumerate(chunks) if ch]):
            outs += part
        return outs, r.generated

    res = parallel([(lambda k=k: rnd(k)) for k in range(nd)] + [sim], max_workers=nd + 1)
    random_traces = [t for part in res[:-1] for t in part]
    sim_traces, sim_states = res[-1]
    return random_traces, sim_traces, sim_states


def make_canary(prop, traces):
    """A recorded trace with one observation corrupted in a clause the property owns."""
    for t in traces:
        for i, st in enumerate(t["steps"]):
            o = st["out"]
            if not o or not o.get("cb"):
                continue
            calls = [c for c in o["cb"] if c["e"] == "call"]
            if not calls or st["in"]["e"] not in ("execute", "aiter"):
                continue
            c = copy.deepcopy(t)
            c["id"] = 999999999
            oc = c["steps"][i]["out"]
            if prop in ("C01",):
                oc["cb"] = [x for x in oc["cb"] if x["e"] != "call"]
            elif prop in ("C02", "C03"):
                k = [x for x in oc["cb"] if x["e"] == "call"][0]
                if k["stm"] == -1000000:
                    continue
                k["stm"] += 1
            else:
                oc["exec"] = not oc["exec"]
            c["steps"] = c["steps"][:i + 1]
            return c
    raise MachineryError("no trace suitable for a canary")


def check(prop, tier):
    out = Outcome(prop, tier)
    sd = seed()
    design_check(prop, tier, out)
    rnd, sim, sim_states = gen_traces(prop, tier, sd)
    traces = rnd + sim
    canary = make_canary(prop, traces)
    verdicts, st = accept.accept("Trace_MagicSM", trace_cfg(prop), traces + [canary],
                                 chunk=400 if tier == "quick" else 1500, jobs=12)
    judge(prop, out, traces, canary, verdicts, st)
    out.cov["traces_validated_against_impl"] = len(traces)
    out.notes["random_traces"] = len(rnd)
    out.notes["spec_behaviours_replayed_on_code"] = len(sim)
    out.notes["acceptor_states"] = st["states"]
    out.notes["simulation_states"] = sim_states
    out.assumptions += [
        "the HAL simulator's FPGA clock and the in-process NetworkTables instance behave like the real ones",
        "a state function performs up to MaxActs in-state actions per iteration (MC: 2, simulation: 3, random "
        "drivers: 4); the default state's function requests no transition; next_state()/next_state_now() are "
        "called from state functions only; exhaustive exploration does not select a state after done() inside "
        "the same iteration (the acceptor still judges such traces)",
        "exhaustive exploration is bounded (see tlc_runs); longer histories are sampled and judged by the specification",
    ]
    return out.finish()


def judge(prop, out, traces, canary, verdicts, st):
    byid = {t["id"]: t for t in traces}
    cv = accept.final_verdict(verdicts[canary["id"]])
    canary_bad = None if cv["v"] == "MISMATCH" else "canary (corrupted observation) was not rejected: %s" % cv
    if st["invariant_violations"]:
        iv = st["invariant_violations"][0]
        out.violation("invariant %s is false on a trace recorded from the implementation" % iv["name"],
                      {"kind": "invariant_on_trace", "invariant": iv["name"], "tlc_states": iv["trace"],
                       "key": {"module": "MagicSM", "clause": iv["name"]}})
    keys = set()
    counts = {"ACCEPT": 0, "MISMATCH": 0, "FOREIGN": 0, "STUCK": 0}
    events = 0
    seen_all = {}
    for tid, t in byid.items():
        if tid not in verdicts:
            continue
        v = accept.final_verdict(verdicts[tid])
        counts[v["v"]] += 1
        events += len(t["steps"])
        if v["v"] == "STUCK":
            raise MachineryError("trace %s: event %s not enabled in the specification at step %s (harness out of sync)" % (
                tid, v.get("ev"), v.get("l")))
        if v["v"] == "MISMATCH":
            l = v["l"]
            summary = "trace %s step %d (%s): clauses %s on branch %s: expected %s observed %s" % (
                tid, l, json.dumps(t["steps"][l - 1]["in"]), v["clauses"], v.get("br"),
                json.dumps(v.get("exp")), json.dumps(v.get("obs")))
            out.violation(summary, {
                "kind": "trace_mismatch", "module": "MagicSM", "property": prop, "verdict": v,
                "trace": {"shape": t["shape"], "extra": t.get("extra"), "steps": t["steps"][:l]},
                "key": {"module": "MagicSM", "clause": sorted(v["clauses"])[0],
                        "branch": (v.get("br") or [""])[0], "branches": "+".join(v.get("br") or [])}})
        if v["v"] == "ACCEPT" and tid >= 3000000:
            # directed histories of findings that have been fixed since: regressions, accepted like any other trace
            out.notes.setdefault("directed_histories_accepted", []).append(tid)
        if v["v"] == "ACCEPT":
            for b in v.get("seen", []):
                seen_all[b] = seen_all.get(b, 0) + 1
            if set(v.get("seen", [])) & KEY_BRANCHES[prop]:
                keys.add(trace_key(t))
    if canary_bad and not out.violations:     # (corrupting an observation that is itself wrong can make it right)
        raise MachineryError(canary_bad)
    out.cov["evaluations"] = events
    out.cov["distinct_nontrivial"] = len(keys)
    out.cov["rule"] = ("a trace is one machine shape plus one history of calls/clock steps; it counts as non-trivial "
                       "when the specification's run of it takes one of the branches %s; distinct by hash of "
                       "(shape, signature/layering, inputs)" % sorted(KEY_BRANCHES[prop]))
    out.notes["verdicts"] = counts
    out.notes["spec_branches_taken_by_impl_traces"] = seen_all
    missing = KEY_BRANCHES[prop] - set(seen_all)
    if missing and not out.violations:
        raise MachineryError("no implementation trace took the branches %s: the check would be vacuous" % sorted(missing))
    smp = []
    for t in traces[:2]:
        smp.append({"shape": t["shape"], "steps": t["steps"][:10]})
    out.cov["samples"] = smp


def replay(path):
    """Re-drive the inputs of a replay file on the current tree and re-run the acceptor on that trace."""
    rp = json.load(open(path))
    prop = rp["property"]
    t = rp["trace"]
    events = []
    for s in t["steps"]:
        e = dict(s["in"])
        events.append(e)
    wd = tlc.workdir("replay")
    jp, op = os.path.join(wd, "job.json"), os.path.join(wd, "out.json")
    json.dump([{"id": 1, "shape": t["shape"], "extra": t.get("extra"), "events": events}], open(jp, "w"))
    run_driver("sm_driver.py", ["--out", op, "--scripts", jp])
    tr = json.load(open(op))
    verdicts, st = accept.accept("Trace_MagicSM", trace_cfg(prop), tr)
    v = accept.final_verdict(verdicts[1])
    log("replay verdict: %s" % json.dumps(v))
    if v["v"] == "MISMATCH" or st["invariant_violations"]:
        log("VIOLATION property=%s replay=%s" % (prop, path))
        return 1
    return 0
