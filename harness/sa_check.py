"""C15: robotpy_ext.autonomous.StatefulAutonomous against specs/StatefulAuto.tla."""
import copy

from . import generic
from .tlc import MachineryError

INV = ["C15_NonNegative", "C15_WithinDuration", "EnabledAgrees"]
PROPS = ["C15_RunsBeforeExpiring", "C15_FirstStateFirst", "C15_SuccessorStartsAtExpiry", "C15_SilentWhenFinished",
         "C15_ReadsDashboardAtEnable"]


def mc_cfg(shapes, *, dev="{}", maxtm=7, periods=2, level=9, inv=INV, props=PROPS, assign="FALSE"):
    names = "{" + ", ".join('"%s"' % s for s in shapes) + "}"
    lines = ["SPECIFICATION MCSpec", "CONSTANTS", "  Dev = %s" % dev, "  ShapeNames = %s" % names,
             "  Steps = {1, 2, 5}", "  DurChoices = {1}", "  MaxTm = %d" % maxtm, "  MaxPeriods = %d" % periods,
             "  MaxLevel = %d" % level, "  Assign = %s" % assign, "CONSTRAINT Bound"]
    lines += ["INVARIANT %s" % i for i in inv] + ["PROPERTY %s" % p for p in props] + ["CHECK_DEADLOCK FALSE"]
    return "\n".join(lines) + "\n"


class SA(generic.Desc):
    name = "StatefulAuto"
    mc_module = "MC_StatefulAuto"
    sim_module = "Sim_StatefulAuto"
    trace_module = "Trace_StatefulAuto"
    driver = "sa_driver.py"
    rule = ("a trace is one generated StatefulAutonomous subclass (1-4 timed/untimed states, random links, all 16 "
            "parameter signatures) driven through on_enable / on_iteration(tm) / on_disable with in-state next_state/done, "
            "dashboard edits of durations and of a registered variable, over 1-5 autonomous periods; non-trivial when a "
            "timed state expired in it; distinct by hash of (shape, signatures, inputs)")
    assumptions = ["tm values passed to on_iteration are multiples of 1/64 s (exact in doubles)",
                   "one instance per generated class (state bookkeeping lives on class-level objects)",
                   "in-process NetworkTables as the dashboard"]

    def tiers(self):
        return {"quick": dict(n_random=600, drivers=4, n_sim=300), "thorough": dict(n_random=30000, drivers=16, n_sim=6000)}

    def mc_runs(self, prop, tier):
        if tier == "quick":
            return [("T1-T4", mc_cfg(["T1", "T2", "T3", "T4"], level=8, maxtm=7), 12, "8g"),
                    ("T1-T4 with in-state assignments", mc_cfg(["T1", "T2", "T3", "T4"], level=7, maxtm=6, assign="TRUE"), 12, "8g")]
        return [("T1-T4", mc_cfg(["T1", "T2", "T3", "T4"], level=12, maxtm=9, periods=3), 16, "16g"),
                ("T1-T4 with in-state assignments", mc_cfg(["T1", "T2", "T3", "T4"], level=9, maxtm=8, assign="TRUE"), 16, "16g")]

    def teeth(self, prop):
        return [("no_ran_guard", mc_cfg(["T2"], dev='{"no_ran_guard"}', level=11, maxtm=9),
                 {"C15_RunsBeforeExpiring", "C15_NonNegative", "C15_FirstStateFirst"})]

    def probes(self, prop):
        return [(p, mc_cfg([s], level=11, maxtm=9, inv=[p], props=[])) for p, s in
                [("Probe_ExpireNext", "T1"), ("Probe_ExpireEnd", "T4"), ("Probe_Reenter", "T2"), ("Probe_UserNext", "T3")]]

    def sim_run(self, prop, tier, sd):
        depth = 40 if tier == "quick" else 80
        cfg = "\n".join(["SPECIFICATION SimSpec", "CONSTANTS", "  Dev = {}", '  ShapeNames = {"T1", "T2", "T3", "T4"}', '  Assign = TRUE',
                         "  Steps = {1, 2, 5}", "  DurChoices = {1, 4}", "  MaxTm = 100000", "  MaxPeriods = 100",
                         "  MaxLevel = 100000", "  SimDepth = %d" % depth, "CONSTRAINT Emit", "CONSTRAINT SimStop",
                         "CHECK_DEADLOCK FALSE"]) + "\n"
        return cfg, "num=%d" % (40 if tier == "quick" else 800), depth + 2

    def canary(self, prop, traces):
        for t in traces:
            for i, st in enumerate(t["steps"]):
                cb = st["out"].get("cb")
                if st["in"]["e"] == "iter" and cb and cb[0]["stm"] != -1000000:
                    c = copy.deepcopy(t)
                    c["id"] = 999999999
                    c["steps"][i]["out"]["cb"][0]["stm"] += 1
                    c["steps"] = c["steps"][:i + 1]
                    return c
        raise MachineryError("no trace suitable for a canary")

    def nontrivial(self, prop, v, t):
        return bool(set(v.get("seen", [])) & {"ExpireNext", "ExpireEnd"})

    def required_tags(self, prop):
        return {"ExpireNext", "ExpireEnd", "Enter", "Continue", "UserNext", "UserDone", "Idle", "Enable", "Sibling", "Assign"}


def check(prop, tier):
    return generic.run_check(SA(), prop, tier)


def replay(path):
    return generic.replay(SA(), path)
