"""C17: Sharp IR drivers against specs/SharpIR.tla.  The power law enters as an independently computed table."""
import json
import os
import re
from decimal import Decimal, getcontext

from . import tlc
from .common import Outcome, run_driver
from .tlc import MachineryError

BASE = {"2Y0A02": ("62.28", "-1.092", 22500000, 145000000), "2Y0A21": ("26.449", "-1.226", 10000000, 80000000),
        "2Y0A41": ("12.84", "-0.9824", 4500000, 35000000)}
# each model on an on-board and on an MXP analog channel; the 2Y0A41 also under its legacy public name
PARAMS = dict(BASE)
PARAMS.update({k + "@hi": v for k, v in BASE.items()})
PARAMS["2Y0A41@legacy"] = BASE["2Y0A41"]
INV = ["LawDecreasing", "C17_InRange", "C17_Monotone", "C17_FollowsLaw", "C17_Special", "C17_SimInverse"]
CFG = "SPECIFICATION Spec\n" + "".join("INVARIANT %s\n" % i for i in INV) + "CHECK_DEADLOCK FALSE\n"


def law_tables():
    """A * v^B for v = 5k/4096 (k = 0 uses the 10 uV floor), in micro-centimetres, 50 significant digits,
    capped at 10x the maximum range (the value is clamped anyway) to stay inside TLC's 32-bit integers"""
    getcontext().prec = 50
    out = {}
    for m, (A, B, lo, hi) in PARAMS.items():
        A, B = Decimal(A), Decimal(B)
        tab = []
        for k in range(4096):
            v = Decimal(5 * k) / Decimal(4096) if k else Decimal("0.00001")
            d = A * (B * v.ln()).exp() * Decimal(10) ** 6
            tab.append(int(min(d.to_integral_value(), Decimal(10 * hi))))
        out[m] = tab
    return out


def check(prop, tier):
    out = Outcome(prop, tier, level="other")
    wd = tlc.workdir("ir")
    op = os.path.join(wd, "obs.json")
    run_driver("ir_driver.py", ["--out", op], cwd=wd)
    data = json.load(open(op))
    data["law"] = law_tables()
    data["range"] = {m: [p[2], p[3]] for m, p in PARAMS.items()}
    dp = os.path.join(wd, "data.json")
    json.dump(data, open(dp, "w"))
    r = tlc.run("SharpIR", CFG, env={"IR_DATA": dp}, workers=8, heap="4g", timeout=1800, tag="ir")
    if r.timed_out or (not r.ok and not r.violated):
        raise MachineryError("SharpIR model run failed:\n%s" % "\n".join(r.out.splitlines()[-25:]))
    out.add_mc("SharpIR (3 models x 4096 codes + special voltages + sim helper)", r)
    # teeth: the same run with one observed reading off by 3 ucm must be rejected
    bad = json.loads(json.dumps(data))
    bad["obs"]["2Y0A21"][2000] += 3
    bp = os.path.join(wd, "bad.json")
    json.dump(bad, open(bp, "w"))
    rb = tlc.run("SharpIR", CFG, env={"IR_DATA": bp}, workers=4, heap="4g", timeout=1800, tag="irbad")
    if not r.violated and rb.violated not in ("C17_FollowsLaw", "C17_Monotone"):
        # (when the readings themselves already break an invariant TLC stops at that one)
        raise MachineryError("a corrupted reading was not rejected (%s)" % (rb.violated or rb.summary()))
    if r.violated:
        st = " ".join(x.strip() for x in (r.trace[-1] if r.trace else []))
        m = re.search(r'case = (\[.*\])', st)
        out.violation("invariant %s fails for case %s" % (r.violated, m.group(1) if m else st),
                      {"kind": "model_on_observed_table", "module": "SharpIR", "property": prop, "invariant": r.violated,
                       "case": m.group(1) if m else st, "key": {"module": "SharpIR", "clause": r.violated}})
    n = len(PARAMS) * 4096 + sum(len(v) for v in data["special"].values()) + sum(len(v) for v in data["sim"].values())
    inside = sum(1 for m in PARAMS for k in range(4096) if PARAMS[m][2] < data["law"][m][k] < PARAMS[m][3])
    out.cov["traces_validated_against_impl"] = n
    out.cov["evaluations"] = n
    out.cov["distinct_nontrivial"] = inside
    out.cov["exhaustive"] = True
    out.cov["rule"] = ("every one of the 4096 ADC codes for each of the three models, 9 special voltages (negative, zeros, tiny, "
                       "floor, 7.5 V, 1e300, +-inf) and 27 simulated distances per model; non-trivial = the code's power-law "
                       "value lies strictly inside the sensor's range (not clamped)")
    out.cov["explanation"] = ("TLC enumerates all cases and checks range, monotonicity, clamp structure and the sim-helper inverse on the "
                              "readings of the real drivers; the datasheet power law itself cannot be expressed in TLA+ and enters as a "
                              "table computed by an independent 50-digit decimal evaluation (trusted), against which TLC compares every "
                              "reading to +-1 micro-centimetre")
    out.cov["samples"] = [{"model": m, "code": k, "volts": 5.0 * k / 4096, "law_ucm": data["law"][m][k], "read_ucm": data["obs"][m][k]}
                          for m, k in (("2Y0A02", 1000), ("2Y0A21@hi", 300), ("2Y0A41@legacy", 4095))]
    out.assumptions += ["the power law A*v^B is evaluated outside TLC with Python's decimal module at 50 digits (trusted base)",
                        "AnalogInputSim.setVoltage/getVoltage round-trip doubles exactly",
                        "NaN is outside the property's quantifier (finite or infinite doubles)"]
    return out.finish()


def replay(path):
    return check(json.load(open(path))["property"], "quick")
