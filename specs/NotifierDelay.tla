---------------------------- MODULE NotifierDelay ----------------------------
(* NotifierDelayCore (state, actions, properties) plus the event-indexed next-state relation used by the *)
(* model-checking, simulation and trace-acceptance wrappers.                                            *)
EXTENDS NotifierDelayCore
EvEnabled(ev) == CASE ev.e = "new" -> ~made [] ev.e = "body" -> TRUE [] ev.e \in {"wait", "free", "enter"} -> made [] OTHER -> FALSE
EvNext(ev) == CASE ev.e = "new" -> New(ev.p) [] ev.e = "body" -> Body(ev.b) [] ev.e = "wait" -> Wait [] ev.e = "free" -> Free [] ev.e = "enter" -> Enter

=============================================================================
