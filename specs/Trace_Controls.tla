---------------------------- MODULE Trace_Controls ----------------------------
EXTENDS Controls, TraceKit
CONSTANTS Prop
tvars == <<cvars, kvars>>
TInit == KInit /\ Init(Batch[tid].shape, 0)
Diffs(ev, o) ==
    IF ev.e \in {"tick", "reset", "enable", "disable", "settimeout", "epoch", "bdset"} THEN {}
    ELSE (IF o.r # ret'.r THEN {"result"} ELSE {})
         \cup (IF ev.e = "print" /\ ret'.r /\ o.r /\ o.nep # ret'.nep THEN {"epochs"} ELSE {})
         \cup (IF ev.e = "print" /\ ret'.r /\ o.r /\ o.fed # ret'.fed THEN {"fed_time"} ELSE {})
TStep ==
    /\ vkind = "" /\ l <= Len(Tr.steps) /\ l' = l + 1 /\ UNCHANGED tid
    /\ LET ev == Tr.steps[l].in  o == Tr.steps[l].out IN
       IF ev.e = "raised"      \* the code under test raised where no exception is specified
       THEN /\ UNCHANGED cvars /\ UNCHANGED seen
            /\ Verdict("MISMATCH", [v |-> "MISMATCH", tid |-> Tr.id, l |-> l, clauses |-> {"raised"}, br |-> <<>>,
                                    exp |-> [raised |-> FALSE], obs |-> o])
       ELSE IF ~EvEnabled(ev)
       THEN UNCHANGED cvars /\ UNCHANGED seen /\ Verdict("STUCK", [v |-> "STUCK", tid |-> Tr.id, l |-> l, ev |-> ev])
       ELSE /\ EvNext(ev)
            /\ seen' = seen \cup {sh.kind \o ":" \o ev.e}
                            \cup (IF flips' > flips THEN {"flip"} ELSE {}) \cup (IF trues' > trues THEN {"bd_true"} ELSE {})
                            \cup (IF lowPasses' > lowPasses THEN {"pf_low_pass"} ELSE {})
                            \cup (IF ev.e = "rec" /\ ~ret'.r THEN {"pf_drop"} ELSE {})
                            \cup (IF prints' > prints THEN {"wd_print"} ELSE {})
                            \cup (IF ev.e = "print" /\ NowUs > wdExp /\ ~ret'.r THEN {"wd_print_suppressed"} ELSE {})
                            \cup (IF ev.e = "sample" /\ sh.period > 0 /\ ~ev.level /\ prevSig' THEN {"db_hold"} ELSE {})
                            \cup (IF ev.e = "bget" /\ ev.level /\ ~ret'.r THEN {"bd_suppressed"} ELSE {})
            /\ LET d == Diffs(ev, o) IN
               IF d # {} THEN Verdict("MISMATCH", [v |-> "MISMATCH", tid |-> Tr.id, l |-> l, clauses |-> d, br |-> <<sh.kind>>,
                                                   exp |-> ret', obs |-> o])
               ELSE IF l = Len(Tr.steps) THEN Verdict("ACCEPT", [v |-> "ACCEPT", tid |-> Tr.id, n |-> l, seen |-> seen'])
               ELSE NoVerdict
TSpec == TInit /\ [][TStep]_tvars
=============================================================================
