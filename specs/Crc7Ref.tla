---------------------------- MODULE Crc7Ref ----------------------------
(* The reference: bit-serial CRC-7, reflected polynomial 0x91 (x^7 + x^3 + 1), LSB first, zero init. *)
EXTENDS Integers, Bitwise
Poly == 145                                      \* 0x91
BitStep(c) == IF c % 2 = 1 THEN shiftR(c ^^ Poly, 1) ELSE shiftR(c, 1)
Step8(c) == BitStep(BitStep(BitStep(BitStep(BitStep(BitStep(BitStep(BitStep(c))))))))
Byte(c, b) == Step8(c ^^ b)                      \* xor the byte in, shift 8 times
\* the same, feeding the message bits one at a time (bit i of b at step i)
Bit(b, i) == shiftR(b, i) % 2
Serial(c, b) ==
    LET f(x, i) == BitStep(x ^^ Bit(b, i)) IN f(f(f(f(f(f(f(f(c, 0), 1), 2), 3), 4), 5), 6), 7)
=============================================================================
