---------------------------- MODULE SMDef ----------------------------
(***************************************************************************)
(* Validity of magicbot.StateMachine definitions (C12).                    *)
(* A behaviour is one definition (a "case"); TLC enumerates the bounded    *)
(* universe and prints each case with the outcome the property requires;   *)
(* every case becomes a generated Python class hierarchy.                  *)
(*                                                                         *)
(* kind "hier": a class hierarchy.  hier names the inheritance shape, cls  *)
(*   is one member list per class, in the order the classes are written.   *)
(*   A member is [n |-> name, f |-> flavour] with flavour                  *)
(*     "S" state, "SF" state(first), "T" timed, "TF" timed(first),         *)
(*     "D" default_state, "P" plain method (not a state).                  *)
(*   The library merges class dictionaries base classes first (reversed    *)
(*   MRO): a redefinition replaces the inherited member but keeps its      *)
(*   position.                                                             *)
(* kind "sig": a state function's parameter list.                          *)
(* kind "name": a state named like an attribute of StateMachine (the list  *)
(*   of attribute names is read from the real class: IOEnv.SM_ATTRS).      *)
(* kinds "alias", "outside", "call": one case each per decorator.          *)
(***************************************************************************)
EXTENDS Integers, Sequences, FiniteSets, TLC, Json, IOUtils

CONSTANTS Names, MaxTotal, MaxPerClass

Flavours == {"S", "SF", "T", "TF", "D", "P"}
Member == [n : Names, f : Flavours]
IsFirst(m) == m.f \in {"SF", "TF"}
IsState(m) == m.f # "P"

\* class lists in writing order, and the order in which the library visits them (reversed MRO,
\* StateMachine itself omitted).  diamond: A; B(A); C(A); D(B, C).  mixin: M1; M2; D(M1, M2).
NClasses(h) == CASE h = "single" -> 1 [] h = "linear2" -> 2 [] h = "linear3" -> 3 [] h = "diamond" -> 4 [] h = "mixin" -> 3
Visit(h) == CASE h = "single" -> <<1>> [] h = "linear2" -> <<1, 2>> [] h = "linear3" -> <<1, 2, 3>>
              [] h = "diamond" -> <<1, 3, 2, 4>> [] h = "mixin" -> <<2, 1, 3>>
Hiers == {"single", "linear2", "linear3", "diamond", "mixin"}

\* member lists: sequences of distinct-named members
RECURSIVE SeqsUpTo(_, _)
SeqsUpTo(S, k) == IF k = 0 THEN {<<>>}
                  ELSE LET shorter == SeqsUpTo(S, k - 1) IN
                       shorter \cup {Append(s, m) : s \in {x \in shorter : Len(x) = k - 1}, m \in S}
DistinctNames(s) == \A i, j \in 1..Len(s) : i # j => s[i].n # s[j].n
ClassBodies == {s \in SeqsUpTo(Member, MaxPerClass) : DistinctNames(s)}
RECURSIVE Total(_)
Total(c) == IF c = <<>> THEN 0 ELSE Len(Head(c)) + Total(Tail(c))
RECURSIVE Assign(_, _)
\* all ways to give n classes bodies with at most `budget` members in total
Assign(n, budget) == IF n = 0 THEN {<<>>}
                     ELSE UNION {{<<b>> \o rest : rest \in Assign(n - 1, budget - Len(b))}
                                 : b \in {x \in ClassBodies : Len(x) <= budget}}

(* ---- what the library must make of a hierarchy ---- *)
\* merge one class body into the member list: replace in place or append; cls remembers the definer
Merge(ms, body, c) ==
    LET RECURSIVE go(_, _)
        go(acc, i) == IF i > Len(body) THEN acc
                      ELSE LET m == [n |-> body[i].n, f |-> body[i].f, c |-> c]
                               pos == {p \in 1..Len(acc) : acc[p].n = m.n}
                           IN IF pos = {} THEN go(Append(acc, m), i + 1)
                              ELSE go([acc EXCEPT ![CHOOSE p \in pos : TRUE] = m], i + 1)
    IN go(ms, 1)
Members(h, cls) ==
    LET v == Visit(h)
        RECURSIVE go(_, _)
        go(acc, i) == IF i > Len(v) THEN acc ELSE go(Merge(acc, cls[v[i]], v[i]), i + 1)
    IN go(<<>>, 1)
States(h, cls) == SelectSeq(Members(h, cls), IsState)
Count(s, P(_)) == Cardinality({i \in 1..Len(s) : P(s[i])})
InstErrors(h, cls) ==
    LET st == States(h, cls)
        nf == Count(st, IsFirst)
        nd == Count(st, LAMBDA m : m.f = "D")
    IN (IF nf = 0 THEN {"NoFirstStateError"} ELSE {})
       \cup (IF nf > 1 THEN {"MultipleFirstStatesError"} ELSE {})
       \cup (IF nd > 1 THEN {"MultipleDefaultStatesError"} ELSE {})
StateNames(h, cls) == [i \in 1..Len(States(h, cls)) |-> States(h, cls)[i].n]
\* every generated state function's docstring is "<name>@<defining class>"
Descriptions(h, cls) == [i \in 1..Len(States(h, cls)) |-> [n |-> States(h, cls)[i].n, c |-> States(h, cls)[i].c]]

(* ---- signatures ---- *)
Params == {"self", "tm", "state_tm", "initial_call", "x", "*args", "**kwargs", "*, kw", "*, tm", "*, state_tm=0.0"}
Legal == {"tm", "state_tm", "initial_call"}
SigSeqs == {s \in SeqsUpTo(Params, 4) : \A i, j \in 1..Len(s) : i # j => s[i] # s[j]}
\* (a parameter list that Python itself rejects - something after **kwargs, *args after keyword-only -
\*  never reaches the library; the driver skips those)
SigAccepted(s) ==
    \/ s = <<>>                                   \* no parameters at all: accepted today; C12 is silent (adopted)
    \/ /\ s[1] = "self"
       /\ \A i \in 2..Len(s) : s[i] \in Legal
Decorators == {"state", "state_first", "timed_state", "default_state"}

SMAttrs == JsonDeserialize(IOEnv.SM_ATTRS)       \* <<"current_state", "done", ...>> from the real class
SafeNames == {"a", "begin", "my_state", "done2", "engaged", "state"}

VARIABLES case
\* pre: every class of the hierarchy that is written before the last one was itself instantiated (and bound to
\* NetworkTables) before the last one is - what a machine is must not depend on which of its base classes
\* have been instantiated before
HierCases == UNION {{[k |-> "hier", h |-> h, cls |-> c, pre |-> p] : c \in Assign(NClasses(h), MaxTotal),
                                                                   p \in (IF NClasses(h) > 1 THEN BOOLEAN ELSE {FALSE})}
                    : h \in Hiers}
SigCases == {[k |-> "sig", d |-> d, ps |-> s] : d \in Decorators, s \in SigSeqs}
NameCases == {[k |-> "name", d |-> d, n |-> SMAttrs[i]] : d \in Decorators, i \in 1..Len(SMAttrs)}
             \cup {[k |-> "name", d |-> d, n |-> n] : d \in Decorators, n \in SafeNames}
\* alias / outside: a fresh state object; *_reuse: a state object that was first bound legitimately in a StateMachine
\* and is then bound again, under another name in another StateMachine / in a class that is not a StateMachine
OtherCases == {[k |-> kk, d |-> d] : kk \in {"alias", "outside", "alias_reuse", "outside_reuse", "call", "call_on_class", "mangled"},
                                    d \in Decorators}
AllCases == HierCases \cup SigCases \cup NameCases \cup OtherCases

Init == case \in AllCases
Spec == Init /\ [][UNCHANGED case]_case

InAttrs(n) == \E i \in 1..Len(SMAttrs) : SMAttrs[i] = n
Expected(c) ==
    CASE c.k = "hier" -> [inst_errors |-> InstErrors(c.h, c.cls), names |-> StateNames(c.h, c.cls),
                          descr |-> Descriptions(c.h, c.cls)]
      [] c.k = "sig" -> [accepted |-> SigAccepted(c.ps)]
      [] c.k = "name" -> [accepted |-> ~InAttrs(c.n)]
      [] c.k \in {"alias", "alias_reuse", "mangled"} -> [error |-> "InvalidStateName"]
      [] c.k \in {"outside", "outside_reuse"} -> [error |-> "TypeError"]
      [] c.k \in {"call", "call_on_class"} -> [error |-> "IllegalCallError"]

(* C12, as laws over the enumerated universe *)
IsHier == case.k = "hier"
\* instantiable iff exactly one first state and at most one default state among the merged members
C12_InstantiableIff ==
    IsHier => ((InstErrors(case.h, case.cls) = {}) <=>
               (Count(States(case.h, case.cls), IsFirst) = 1 /\ Count(States(case.h, case.cls), LAMBDA m : m.f = "D") <= 1))
\* a redefinition overrides: every state name appears once, with the flavour of its last definition in visiting order
C12_OverrideWins ==
    IsHier => LET ms == Members(case.h, case.cls) IN
              /\ \A i, j \in 1..Len(ms) : i # j => ms[i].n # ms[j].n
              /\ \A i \in 1..Len(ms) :
                    LET v == Visit(case.h)
                        defs == {p \in 1..Len(v) : \E q \in 1..Len(case.cls[v[p]]) : case.cls[v[p]][q].n = ms[i].n}
                        lastp == CHOOSE p \in defs : \A p2 \in defs : p2 <= p
                    IN ms[i].c = v[lastp]
\* base-class states come first, in definition order
C12_BaseFirst ==
    IsHier => LET ms == Members(case.h, case.cls)  v == Visit(case.h)
                  firstDef(n) == CHOOSE p \in 1..Len(v) : (\E q \in 1..Len(case.cls[v[p]]) : case.cls[v[p]][q].n = n)
                                   /\ \A p2 \in 1..(p - 1) : ~\E q \in 1..Len(case.cls[v[p2]]) : case.cls[v[p2]][q].n = n
              IN \A i, j \in 1..Len(ms) : i < j => firstDef(ms[i].n) <= firstDef(ms[j].n)

Emit == PrintT("S|" \o ToJson([case |-> case, exp |-> Expected(case)]))
=============================================================================
