---------------------------- MODULE Sim_StatefulAuto ----------------------------
EXTENDS MC_StatefulAuto, Json
CONSTANTS SimDepth
VARIABLES hist
SimInit == MCInit /\ hist = <<>>
\* iterations are offered more often than the other inputs
SimInputs == Inputs \cup {[x |-> i] @@ ev : ev \in {e \in Inputs : e.e = "iter" /\ e.act = "none"}, i \in 1..4}
SimNext == \E ev \in SimInputs :
             /\ EvNext(ev)
             /\ clk' = IF ev.e = "iter" THEN ev.tm ELSE IF ev.e = "enable" THEN 0 ELSE clk
             /\ periods' = periods + (IF ev.e = "enable" THEN 1 ELSE 0)
             /\ hist' = Append(hist, ev)
SimSpec == SimInit /\ [][SimNext]_<<savars, clk, periods, hist>>
Emit == (Len(hist) = SimDepth) => PrintT("S|" \o ToJson([shape |-> sh, events |-> hist]))
SimStop == Len(hist) <= SimDepth
=============================================================================
