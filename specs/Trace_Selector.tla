---------------------------- MODULE Trace_Selector ----------------------------
EXTENDS Selector, TraceKit
CONSTANTS Prop
tvars == <<slvars, kvars>>
TInit == KInit /\ Init([modes |-> ToSet(Batch[tid].shape.modes), defmode |-> Batch[tid].shape.defmode])
TStep ==
    /\ vkind = "" /\ l <= Len(Tr.steps) /\ l' = l + 1 /\ UNCHANGED tid
    /\ LET ev == Tr.steps[l].in  o == Tr.steps[l].out IN
       IF ev.e = "raised"      \* the code under test raised where no exception is specified
       THEN /\ UNCHANGED slvars /\ UNCHANGED seen
            /\ Verdict("MISMATCH", [v |-> "MISMATCH", tid |-> Tr.id, l |-> l, clauses |-> {"raised"}, br |-> <<>>,
                                    exp |-> [raised |-> FALSE], obs |-> o])
       ELSE IF ~EvEnabled(ev)
       THEN UNCHANGED slvars /\ UNCHANGED seen /\ Verdict("STUCK", [v |-> "STUCK", tid |-> Tr.id, l |-> l, ev |-> ev])
       ELSE /\ EvNext(ev)
            /\ seen' = seen \cup {ev.e} \cup {out'[i].k : i \in 1..Len(out')}
                  \cup (IF ev.e = "start" /\ active' # None /\ active' # chooser THEN {"string_wins"} ELSE {})
                  \cup (IF ev.e = "start" /\ active' = None THEN {"none_selected"} ELSE {})
                  \cup (IF ev.e = "start" /\ active' # None /\ active' # sh.defmode /\ selStr \notin sh.modes THEN {"chooser_selection"} ELSE {})
                  \cup (IF ev.e = "periodic" /\ active = None THEN {"periodic_idle"} ELSE {})
                  \cup (IF ViaRun(ev) THEN {"run"} ELSE {})
                  \cup (IF ev.e = "endcomp" /\ active # None THEN {"end_while_enabled"} ELSE {})
                  \cup (IF ViaRun(ev) /\ ev.e = "periodic" /\ active = None /\ \E m \in sh.modes : life[m] = "idle" /\ chooser # None
                        THEN {"run_goes_on_after_disable"} ELSE {})
            /\ IF o.cb # out'
               THEN Verdict("MISMATCH", [v |-> "MISMATCH", tid |-> Tr.id, l |-> l, clauses |-> {"callbacks"}, br |-> <<>>,
                                         exp |-> [cb |-> out'], obs |-> o])
               ELSE IF l = Len(Tr.steps) THEN Verdict("ACCEPT", [v |-> "ACCEPT", tid |-> Tr.id, n |-> l, seen |-> seen'])
               ELSE NoVerdict
TSpec == TInit /\ [][TStep]_tvars
=============================================================================
