---------------------------- MODULE Crc7Bits ----------------------------
(***************************************************************************)
(* Error detection of the bit-serial CRC, on the syndrome register.        *)
(* By XOR-linearity, crc(m XOR e) # crc(m) iff the error pattern e alone   *)
(* leaves a non-zero register.  A behaviour here is an error pattern, bit  *)
(* by bit from its first 1: up to six arbitrary bits (a burst of <= 7),    *)
(* then only correct (0) bits.                                             *)
(***************************************************************************)
EXTENDS Integers, Bitwise, TLC
Poly == 145
BitStep(c) == IF c % 2 = 1 THEN shiftR(c ^^ Poly, 1) ELSE shiftR(c, 1)
F(c, u) == BitStep(c ^^ u)

VARIABLES s,     \* syndrome register
          n,     \* bits consumed, counting the first error bit
          pure   \* only the first bit was in error so far
bvars == <<s, n, pure>>
BInit == s = F(0, 1) /\ n = 1 /\ pure = TRUE
BNext == /\ n < 260
         /\ \E u \in (IF n < 7 THEN {0, 1} ELSE {0}) : s' = F(s, u) /\ n' = n + 1 /\ pure' = (pure /\ u = 0)
BSpec == BInit /\ [][BNext]_bvars

\* any single bit error and any burst of up to 7 bits, followed by any number of correct bits
DetectsBursts == s # 0
\* a second error bit d positions after the first cancels the syndrome iff the register holds 1
\* when it arrives, i.e. after d-1 correct bits: never for d < 127
DetectsDoubleBelow127 == (pure /\ n \in 1..126) => s # 1
\* ... and the bound is tight (the polynomial is primitive, period 127)
PeriodIs127 == (pure /\ n = 127) => s = 1
=============================================================================
