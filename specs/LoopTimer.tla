---------------------------- MODULE LoopTimer ----------------------------
(***************************************************************************)
(* robotpy_ext.misc.looptimer.LoopTimer - outside the twenty listed        *)
(* properties; part of the specification's coverage of the library         *)
(* (./check X01).  measure() is called once per robot loop; about once a   *)
(* second of FPGA time it logs the number of loops, the shortest and the   *)
(* longest loop and the length of the window, and starts a new window.     *)
(* Time is in ticks of 1/64 s (exact in binary floating point).            *)
(*                                                                         *)
(* The one-second timer is a wpilib.Timer: advanceIfElapsed(1) fires when  *)
(* at least one second has passed since its start and then moves the start *)
(* forward by exactly one second - so after a stall several measure()      *)
(* calls in a row report.  When exactly one second has passed the C++      *)
(* comparison is done on rounded doubles; the specification leaves that    *)
(* one instant open (the event carries the observed outcome, `tie`).       *)
(***************************************************************************)
EXTENDS Integers, Sequences
CONSTANTS Dev
VARIABLES now, made, last, start, tstart, treset, mn, mx, loops, reports, sinceRep, rep
lvars == <<now, made, last, start, tstart, treset, mn, mx, loops, reports, sinceRep, rep>>

Second == 64
NoRep == [r |-> FALSE, loops |-> 0, mn |-> 0, mx |-> 0, period |-> 0]
Min(a, b) == IF a <= b THEN a ELSE b
Max(a, b) == IF a >= b THEN a ELSE b

Init == /\ now = 0 /\ made = FALSE /\ last = 0 /\ start = 0 /\ tstart = 0 /\ treset = 0 /\ mn = -1 /\ mx = -1 /\ loops = 0
        /\ reports = 0 /\ sinceRep = 0 /\ rep = NoRep

Tick(d) == now' = now + d /\ rep' = NoRep
           /\ UNCHANGED <<made, last, start, tstart, treset, mn, mx, loops, reports, sinceRep>>

\* LoopTimer(logger) and reset(): the window and the one-second timer start now
Reset(isNew) ==
    /\ (isNew \/ made) /\ made' = TRUE
    /\ last' = now /\ start' = now /\ tstart' = now /\ treset' = now /\ mn' = -1 /\ mx' = -1 /\ loops' = 0
    /\ reports' = 0 /\ sinceRep' = 0 /\ rep' = NoRep /\ UNCHANGED now

Measure(tie) ==
    /\ made
    /\ LET diff == now - last
           mn1 == IF mn = -1 THEN diff ELSE Min(mn, diff)
           mx1 == Max(mx, diff)
           n1  == loops + 1
           el  == now - tstart
           fire == el > Second \/ (el = Second /\ tie)
       IN /\ last' = now
          /\ IF fire
             THEN /\ rep' = [r |-> TRUE, loops |-> n1, mn |-> mn1, mx |-> mx1, period |-> now - start]
                  /\ tstart' = tstart + Second /\ start' = now /\ reports' = reports + 1 /\ sinceRep' = 0
                  /\ mn' = -1 /\ mx' = -1
                  /\ loops' = IF "loops_not_reset" \in Dev THEN n1 ELSE 0
             ELSE /\ rep' = NoRep /\ mn' = mn1 /\ mx' = mx1 /\ loops' = n1 /\ sinceRep' = sinceRep + 1
                  /\ UNCHANGED <<tstart, start, reports>>
    /\ UNCHANGED <<now, made, treset>>

EvEnabled(ev) ==
    CASE ev.e = "tick" -> TRUE
      [] ev.e = "new" -> TRUE
      [] ev.e = "reset" -> made
      [] ev.e = "measure" -> made
      [] OTHER -> FALSE
EvNext(ev) ==
    CASE ev.e = "tick" -> Tick(ev.d)
      [] ev.e = "new" -> Reset(TRUE)
      [] ev.e = "reset" -> Reset(FALSE)
      [] ev.e = "measure" -> Measure(ev.tie)
      [] OTHER -> FALSE

(* ---- what a user of the class relies on ---- *)
\* the loop count of the window is the number of measure() calls since the last report (or reset)
LT_LoopsCounted == made => loops = sinceRep
\* a report's average lies between its shortest and its longest loop, and the window is the sum of its loops
LT_ReportConsistent == rep.r => /\ rep.loops >= 1 /\ 0 <= rep.mn /\ rep.mn <= rep.mx
                                /\ rep.mn * rep.loops <= rep.period /\ rep.period <= rep.mx * rep.loops
\* at most one report per elapsed second since the last reset
LT_AtMostOnePerSecond == made => reports * Second <= now - treset
\* a report is due: never more than a second of measured time goes by without one while measure() is being called
LT_Due == [][(\E t \in BOOLEAN : Measure(t)) /\ now - tstart > Second => rep'.r]_lvars
=============================================================================
