---------------------------- MODULE Sim_MagicSM ----------------------------
(* Behaviours of the specification as input scripts for the real code (spec -> code direction). *)
(* tlc -simulate walks MCNext at random; the inputs of each walk are printed as one JSON line.   *)
EXTENDS MC_MagicSM, Json

CONSTANTS SimDepth
VARIABLES hist

\* values written to duration topics in the walks (a cfg file cannot hold a negative number): a negative duration
\* lets the state run once and starts its successor's clock before the state's own entry
SimDurs == {1, 4, -3}

SimInit == MCInit /\ hist = <<>>
SimNext == \E ev \in Inputs : /\ Allowed(ev) /\ EvNext(ev)
                              /\ hist' = Append(hist, ev @@ [depth |-> Len(stack)])
SimSpec == SimInit /\ [][SimNext]_<<mvars, hist>>
SimBound == now - start <= MaxRel
Emit == (Len(hist) = SimDepth) => PrintT("S|" \o ToJson([shape |-> sh, events |-> hist]))
=============================================================================
