---------------------------- MODULE Sim_MagicSM ----------------------------
(* Behaviours of the specification as input scripts for the real code (spec -> code direction). *)
(* tlc -simulate walks MCNext at random; the inputs of each walk are printed as one JSON line.   *)
EXTENDS MC_MagicSM, Json

CONSTANTS SimDepth
VARIABLES hist

SimInit == MCInit /\ hist = <<>>
SimNext == \E ev \in Inputs : /\ Allowed(ev) /\ EvNext(ev)
                              /\ hist' = Append(hist, ev @@ [depth |-> Len(stack)])
SimSpec == SimInit /\ [][SimNext]_<<mvars, hist>>
SimBound == now - start <= MaxRel
Emit == (Len(hist) = SimDepth) => PrintT("S|" \o ToJson([shape |-> sh, events |-> hist]))
=============================================================================
