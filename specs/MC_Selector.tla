---------------------------- MODULE MC_Selector ----------------------------
EXTENDS Selector
CONSTANTS MaxLevel, Defmodes
MCInit == \E d \in Defmodes : Init([modes |-> {"m1", "m2"}, defmode |-> d])
BaseInputs == {[e |-> "tick", d |-> d] : d \in {0, 20000}} \cup {[e |-> "str", s |-> s] : s \in {"", "m1", "m2", "bogus"}}
          \cup {[e |-> "choose", s |-> s] : s \in {"m1", "m2", "None", "bogus"}}
          \cup {[e |-> "start"], [e |-> "periodic"], [e |-> "disable"], [e |-> "endcomp"]}
\* an autonomous period through run()
RunInputs == {[e |-> "start", via |-> "run"], [e |-> "periodic", via |-> "run"], [e |-> "disable", via |-> "run", last |-> TRUE]}
Inputs == BaseInputs \cup RunInputs
MCNext == \E ev \in Inputs : EvNext(ev)
MCSpec == MCInit /\ [][MCNext]_slvars
Bound == TLCGet("level") <= MaxLevel /\ now <= 60000
MCView == <<sh, now - t0, now - rt0, selStr, chooser, active, started, out, life, inRun, exitReq>>
\* endCompetition() while a mode is enabled: its on_disable() is still to come
Probe_EndWhileEnabled == ~(exitReq /\ active # None)
\* a mode was disabled from inside a run() period and the loop went on: nothing more is delivered
Probe_DisabledMidRun == ~(inRun /\ active = None /\ \E m \in sh.modes : life[m] = "idle" /\ now > rt0 /\ chooser # None)
EnabledAgrees == \A ev \in Inputs : EvEnabled(ev) = ENABLED EvNext(ev)
Probe_StringWins == ~(active # None /\ active # chooser)
Probe_NoneSelected == ~(started /\ active = None /\ chooser = None /\ selStr = "")
Probe_SecondPeriodOtherMode == ~(\E m \in sh.modes : life[m] = "enabled" /\ m # sh.defmode /\ now > 20000)
=============================================================================
