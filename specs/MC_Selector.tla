---------------------------- MODULE MC_Selector ----------------------------
EXTENDS Selector
CONSTANTS MaxLevel, Defmodes
MCInit == \E d \in Defmodes : Init([modes |-> {"m1", "m2"}, defmode |-> d])
Inputs == {[e |-> "tick", d |-> d] : d \in {0, 20000}} \cup {[e |-> "str", s |-> s] : s \in {"", "m1", "m2", "bogus"}}
          \cup {[e |-> "choose", s |-> s] : s \in {"m1", "m2", "None", "bogus"}}
          \cup {[e |-> "start"], [e |-> "periodic"], [e |-> "disable"]}
MCNext == \E ev \in Inputs : EvNext(ev)
MCSpec == MCInit /\ [][MCNext]_slvars
Bound == TLCGet("level") <= MaxLevel /\ now <= 60000
MCView == <<sh, now - t0, selStr, chooser, active, started, out, life>>
EnabledAgrees == \A ev \in Inputs : EvEnabled(ev) = ENABLED EvNext(ev)
Probe_StringWins == ~(active # None /\ active # chooser)
Probe_NoneSelected == ~(started /\ active = None /\ chooser = None /\ selStr = "")
Probe_SecondPeriodOtherMode == ~(\E m \in sh.modes : life[m] = "enabled" /\ m # sh.defmode /\ now > 20000)
=============================================================================
