---------------------------- MODULE Tunable ----------------------------
(***************************************************************************)
(* magicbot.tunable / setup_tunables: attributes backed by NetworkTables.  *)
(* NetworkTables is a map path -> [type, vi] (vi: index into the value     *)
(* domain of that type; the driver owns the concrete values).              *)
(* sh = [tunables : seq of [attr, sub, type, wd],                           *)
(*       insts    : seq of [kind, name]]   (all instances are of the one   *)
(* generated class; kind "components" | "autonomous" | "robot").           *)
(* Actions: NtWrite (a NetworkTables client publishes a value, possibly    *)
(* before the owner is set up), Setup, PyWrite, PyRead, NtRead.            *)
(* Dev: shared_class_entry, default_always_written, raw_getentry (the      *)
(* pinned tree: setting up a bytes tunable raised TypeError) ...           *)
(***************************************************************************)
EXTENDS Integers, Sequences, FiniteSets, TLC
CONSTANTS Dev
Absent == [type |-> "absent", vi |-> -1]

VARIABLES sh, pt, nt, ready, ret    \* pt: the path table [<<inst, tunable>> -> path], fixed by Init
tuvars == <<sh, pt, nt, ready, ret>>

NI == Len(sh.insts)
NTn == Len(sh.tunables)
Prefix(i) == LET x == sh.insts[i] IN
             IF x.kind = "robot" THEN "/" \o x.name
             ELSE "/" \o x.kind \o "/" \o (IF "shared_class_entry" \in Dev THEN "cls" ELSE x.name)
PathOf(i, t) == LET tu == sh.tunables[t] IN
              Prefix(i) \o (IF tu.sub = "" THEN "" ELSE "/" \o tu.sub) \o "/" \o tu.attr
Path(i, t) == pt[<<i, t>>]
\* documented topic type string for a tunable's declared type
TypeString(ty) == CASE ty = "bool" -> "boolean" [] ty = "float" -> "double" [] ty = "str" -> "string" [] ty = "bytes" -> "raw"
                    [] ty = "struct" -> "struct:Translation2d" [] ty = "bool[]" -> "boolean[]" [] ty = "float[]" -> "double[]"
                    [] ty = "str[]" -> "string[]" [] ty = "struct[]" -> "struct:Translation2d[]" [] ty = "empty_int[]" -> "int[]"
                    [] ty = "empty_str[]" -> "string[]"
                    \* a type hint wider than the default's own type decides (x: float = tunable(1), tunable[float](1), ...)
                    [] ty \in {"hint_float", "hint_float_g", "hint_float_cv", "hint_float_inh"} -> "double" [] ty = "hint_float[]" -> "double[]"
                    [] OTHER -> ty      \* int, int[]
\* bool has only two values
Canon(ty, vi) == IF ty = "bool" /\ vi = 2 THEN 0 ELSE vi

InitPath(shape, i, t) ==
    LET x == shape.insts[i]  tu == shape.tunables[t] IN
    (IF x.kind = "robot" THEN "/" \o x.name
     ELSE "/" \o x.kind \o "/" \o (IF "shared_class_entry" \in Dev THEN "cls" ELSE x.name))
    \o (IF tu.sub = "" THEN "" ELSE "/" \o tu.sub) \o "/" \o tu.attr
Init(shape) ==
    /\ sh = shape
    /\ pt = [x \in (1..Len(shape.insts)) \X (1..Len(shape.tunables)) |-> InitPath(shape, x[1], x[2])]
    /\ nt = [p \in {InitPath(shape, i, t) : i \in 1..Len(shape.insts), t \in 1..Len(shape.tunables)} |-> Absent]
    /\ ready = [i \in 1..Len(shape.insts) |-> FALSE]
    /\ ret = [k |-> "none"]

Val(i, t, vi) == [type |-> TypeString(sh.tunables[t].type), vi |-> Canon(sh.tunables[t].type, vi)]

NtWrite(i, t, vi) ==
    /\ nt' = [nt EXCEPT ![Path(i, t)] = Val(i, t, vi)]
    /\ ret' = [k |-> "none"] /\ UNCHANGED <<sh, pt, ready>>

SetupFails(i) == "raw_getentry" \in Dev /\ \E t \in 1..NTn : sh.tunables[t].type = "bytes"
Setup(i) ==
    /\ ~ready[i]
    /\ IF SetupFails(i)
       THEN ret' = [k |-> "setup", err |-> TRUE] /\ UNCHANGED <<sh, pt, nt, ready>>
       ELSE /\ nt' = [p \in DOMAIN nt |->
                        IF \E t \in 1..NTn : Path(i, t) = p
                        THEN LET t == CHOOSE t \in 1..NTn : Path(i, t) = p IN
                             IF sh.tunables[t].wd \/ nt[p] = Absent \/ "default_always_written" \in Dev
                             THEN Val(i, t, 0) ELSE nt[p]
                        ELSE nt[p]]
            /\ ready' = [ready EXCEPT ![i] = TRUE]
            /\ ret' = [k |-> "setup", err |-> FALSE] /\ UNCHANGED <<sh, pt>>
PyWrite(i, t, vi) ==
    /\ ready[i] /\ nt' = [nt EXCEPT ![Path(i, t)] = Val(i, t, vi)]
    /\ ret' = [k |-> "none"] /\ UNCHANGED <<sh, pt, ready>>
PyRead(i, t) ==
    /\ ready[i] /\ ret' = [k |-> "read", vi |-> nt[Path(i, t)].vi, type |-> nt[Path(i, t)].type]
    /\ UNCHANGED <<sh, pt, nt, ready>>
NtRead(i, t) ==
    /\ ret' = [k |-> "read", vi |-> nt[Path(i, t)].vi, type |-> nt[Path(i, t)].type]
    /\ UNCHANGED <<sh, pt, nt, ready>>

EvEnabled(ev) ==
    CASE ev.e = "setup" -> ev.i \in 1..NI /\ ~ready[ev.i]
      [] ev.e \in {"pyw", "pyr"} -> ev.i \in 1..NI /\ ev.t \in 1..NTn /\ ready[ev.i]
      [] ev.e \in {"ntw", "ntr"} -> ev.i \in 1..NI /\ ev.t \in 1..NTn
      [] OTHER -> FALSE
EvNext(ev) ==
    CASE ev.e = "setup" -> Setup(ev.i)
      [] ev.e = "pyw" -> PyWrite(ev.i, ev.t, ev.vi)
      [] ev.e = "pyr" -> PyRead(ev.i, ev.t)
      [] ev.e = "ntw" -> NtWrite(ev.i, ev.t, ev.vi)
      [] ev.e = "ntr" -> NtRead(ev.i, ev.t)

(* C09 *)
\* two owners set up under different (kind, name) never share a topic; two tunables of one owner neither
C09_Independent == \A i, j \in 1..NI : \A t, u \in 1..NTn : (Path(i, t) = Path(j, u)) => (i = j /\ t = u)
\* set-up: the default overwrites when writeDefault, is kept out of the way of an existing value otherwise
C09_WriteDefault ==
    [][\A i \in 1..NI : (~ready[i] /\ ready'[i]) =>
          \A t \in 1..NTn : IF sh.tunables[t].wd \/ nt[Path(i, t)] = Absent
                            THEN nt'[Path(i, t)] = Val(i, t, 0) ELSE nt'[Path(i, t)] = nt[Path(i, t)]]_tuvars
\* the topic type is the documented one for the declared default / hint
C09_Typed == \A i \in 1..NI : ready[i] => \A t \in 1..NTn : nt[Path(i, t)].type = TypeString(sh.tunables[t].type)
\* setting up never fails for a supported type
C09_SetupSucceeds == (ret.k = "setup") => ~ret.err
=============================================================================
