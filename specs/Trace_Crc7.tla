---------------------------- MODULE Trace_Crc7 ----------------------------
(* Acceptor: running checksums returned by the real crc7() for every prefix of recorded messages,  *)
(* against the bit-serial reference only (independent of the code's table).                        *)
EXTENDS Crc7Ref, TraceKit
CONSTANTS Prop
VARIABLES cb
tvars == <<cb, kvars>>
TInit == KInit /\ cb = 0
TStep ==
    /\ vkind = "" /\ l <= Len(Tr.steps) /\ l' = l + 1 /\ UNCHANGED tid
    /\ LET ev == Tr.steps[l].in  o == Tr.steps[l].out.c
           b == IF ev.e = "byte" THEN ev.b ELSE 0 IN
       \* "empty": crc7 of the message so far without any further byte (at the start: of the empty message)
       /\ cb' = (IF ev.e = "byte" THEN Byte(cb, b) ELSE cb)
       /\ seen' = seen \cup {IF l = 1 THEN "first" ELSE "later"}
       /\ IF o # -9 /\ o # cb'      \* -9: this prefix was not observed
          THEN Verdict("MISMATCH", [v |-> "MISMATCH", tid |-> Tr.id, l |-> l, clauses |-> {"csum"}, br |-> <<>>,
                                    exp |-> [c |-> cb'], obs |-> [c |-> o, b |-> b]])
          ELSE IF l = Len(Tr.steps) THEN Verdict("ACCEPT", [v |-> "ACCEPT", tid |-> Tr.id, n |-> l, seen |-> seen'])
          ELSE NoVerdict
TSpec == TInit /\ [][TStep]_tvars
=============================================================================
