---------------------------- MODULE Units ----------------------------
(***************************************************************************)
(* robotpy_ext.common_drivers.units.convert and the linear sensor drivers  *)
(* (MaxSonar EZ pulse-width / analog, REV analog pressure sensor), in      *)
(* exact rational arithmetic.                                              *)
(* Units form a tree: each unit names its base unit and the factor         *)
(* "units per base unit"; convert folds to the root and unfolds along the  *)
(* target's chain.  The four library units plus a user-defined chain       *)
(* (depth up to 4) are enumerated.  A behaviour is a single case: the      *)
(* state is the case, the invariants are the algebraic laws C18 states,    *)
(* and every case is printed with its exact expected value so that the     *)
(* real code can be run on it.                                             *)
(***************************************************************************)
EXTENDS Rational, Sequences, FiniteSets, TLC, Json

UnitNames == {"meter", "centimeter", "foot", "inch", "u1", "u2", "u3", "u4", "u5"}
\* a second tree with a root of its own, declared the documented way (base_unit=None and placeholder callables)
Tree2 == {"r0", "r1", "r2"}
Base(u) == CASE u = "meter" -> "none" [] u = "centimeter" -> "meter" [] u = "foot" -> "meter" [] u = "inch" -> "foot"
             [] u = "u1" -> "meter" [] u = "u2" -> "u1" [] u = "u3" -> "u2" [] u = "u4" -> "inch" [] u = "u5" -> "foot"
             [] u = "r0" -> "none" [] u = "r1" -> "r0" [] u = "r2" -> "r1"
\* units of u per one base unit
Factor(u) == CASE u = "centimeter" -> Q(100, 1) [] u = "foot" -> Q(10000, 3048) [] u = "inch" -> Q(12, 1)
               [] u = "u1" -> Q(3, 1) [] u = "u2" -> Q(1, 2) [] u = "u3" -> Q(5, 4) [] u = "u4" -> Q(7, 1)
               [] u = "u5" -> Q(1, 3)        \* a "yard": sibling of inch under foot
               [] u = "r1" -> Q(4, 1) [] u = "r2" -> Q(1, 5)
               [] OTHER -> Q(1, 1)
RECURSIVE ToRoot(_, _)
ToRoot(u, v) == IF Base(u) = "none" THEN v ELSE ToRoot(Base(u), Div(v, Factor(u)))
RECURSIVE FromRoot(_, _)
FromRoot(u, v) == IF Base(u) = "none" THEN v ELSE Mul(FromRoot(Base(u), v), Factor(u))
Convert(a, b, v) == FromRoot(b, ToRoot(a, v))

Values == {Q(0, 1), Q(1, 1), Q(-3, 1), Q(5, 2), Q(12, 1), Q(100, 1), Q(1, 8)}

(* sensors *)
SonarInches(periodUs) == Div(periodUs, Q(147, 1))              \* pulse width / 147 us
SonarCm(mV) == Div(mV, Q(49, 10))                              \* voltage / 4.9 mV
VFloor == Q(1, 100000)
Pressure(v, vcc) == IF vcc[1] = 0 THEN Q(0, 1) ELSE Sub(Mul(Q(250, 1), Div(RMax(v, VFloor), vcc)), Q(25, 1))
Calibrated(vo, p) == Div(RMax(vo, VFloor), Add(Mul(Q(4, 1000), p), Q(1, 10)))     \* Vn after calibrate(p)

VARIABLES case
Cases ==
    {[k |-> "convert", a |-> a, b |-> b, c |-> c, v |-> v] : a \in UnitNames, b \in UnitNames, c \in UnitNames, v \in Values}
    \cup {[k |-> "convert", a |-> a, b |-> b, c |-> c, v |-> v] : a \in Tree2, b \in Tree2, c \in Tree2, v \in Values}
    \* "user-defined unit chains of any depth": a chain of n units, the factors alternating 2 and 1/2 (n even: the deepest
    \* unit measures the same as the root), converted from the deepest unit to the root and back
    \cup {[k |-> "deep", n |-> n, v |-> v] : n \in {40, 1500, 6000}, v \in {Q(5, 2), Q(-3, 1)}}
    \cup {[k |-> "sonar_pw", us |-> Q(us, 1), b |-> b] : us \in {0, 147, 1470, 5880, 37500}, b \in {"inch", "centimeter", "meter", "foot"}}
    \cup {[k |-> "sonar_an", mv |-> Q(mv, 1), b |-> b] : mv \in {0, 49, 980, 2450, 4999}, b \in {"inch", "centimeter", "meter", "foot"}}
    \cup {[k |-> "pressure", v |-> Q(v, 1000), vcc |-> Q(vcc, 10)] : v \in {-500, 0, 1, 500, 2500, 4500, 5000, 7500}, vcc \in {0, 33, 50}}
    \* (a sensor constructed with voltage_in = 0 reads 0 until it is calibrated; calibration replaces the supply voltage)
    \cup {[k |-> "calib", vo |-> Q(vo, 1000), p |-> Q(p, 1), vcc |-> Q(vcc, 10)] : vo \in {500, 1300, 2500, 4400}, p \in {0, 60, 120, 200}, vcc \in {0, 33, 50}}
    \* calibrated twice: only the last calibration counts
    \cup {[k |-> "recalib", vo1 |-> Q(vo1, 1000), p1 |-> Q(p1, 1), vo |-> Q(vo, 1000), p |-> Q(p, 1), vcc |-> Q(vcc, 10)]
            : vo1 \in {1300, 4400}, p1 \in {0, 120}, vo \in {500, 2500}, p \in {60, 200}, vcc \in {33, 50}}
Init == case \in Cases
Next == UNCHANGED case
Spec == Init /\ [][Next]_case

Expected(c) ==
    CASE c.k = "convert"  -> Convert(c.a, c.b, c.v)
      [] c.k = "sonar_pw" -> Convert("inch", c.b, SonarInches(c.us))
      [] c.k = "sonar_an" -> Convert("centimeter", c.b, SonarCm(c.mv))
      [] c.k = "deep" -> c.v
      [] c.k = "pressure" -> Pressure(c.v, c.vcc)
      [] c.k \in {"calib", "recalib"} -> Pressure(c.vo, Calibrated(c.vo, c.p))

(* C18 *)
IsConv == case.k = "convert"
C18_Identity == IsConv => Convert(case.a, case.a, case.v) = case.v
C18_RoundTrip == IsConv => Convert(case.b, case.a, Convert(case.a, case.b, case.v)) = case.v
C18_PathIndependent == IsConv => Convert(case.b, case.c, Convert(case.a, case.b, case.v)) = Convert(case.a, case.c, case.v)
C18_Homogeneous == IsConv => Convert(case.a, case.b, Mul(Q(3, 2), case.v)) = Mul(Q(3, 2), Convert(case.a, case.b, case.v))
C18_Additive == IsConv => Convert(case.a, case.b, Add(case.v, Q(7, 4))) = Add(Convert(case.a, case.b, case.v), Convert(case.a, case.b, Q(7, 4)))
C18_Anchors == /\ Convert("meter", "centimeter", Q(1, 1)) = Q(100, 1)
               /\ Convert("foot", "meter", Q(1, 1)) = Q(3048, 10000)
               /\ Convert("foot", "inch", Q(1, 1)) = Q(12, 1)
C18_CalibrationExact == (case.k \in {"calib", "recalib"}) => Expected(case) = case.p

Emit == PrintT("S|" \o ToJson([case |-> case, exp |-> Expected(case)]))
\* the user-defined part of the unit table, for the driver that builds the same Unit objects
UserUnits == {"u1", "u2", "u3", "u4", "u5", "r0", "r1", "r2"}
ASSUME PrintT("U|" \o ToJson([u \in UserUnits |-> [base |-> Base(u), factor |-> Factor(u)]]))
=============================================================================
