---------------------------- MODULE TraceKit ----------------------------
(* Shared plumbing of the batch trace acceptors: trace selection, position, verdict printing. *)
EXTENDS Integers, Sequences, TLC, Json, IOUtils

VARIABLES tid, l, verdict, vkind, vnew, seen

kvars == <<tid, l, verdict, vkind, vnew, seen>>
Batch == JsonDeserialize(IOEnv.TRACE_FILE)
Tr == Batch[tid]
ToSet(seq) == {seq[i] : i \in 1..Len(seq)}

KInit == /\ tid \in 1..Len(Batch) /\ l = 1 /\ verdict = "" /\ vkind = "" /\ vnew = FALSE /\ seen = {}
Verdict(kind, rec) == /\ verdict' = ToJson(rec) /\ vkind' = kind /\ vnew' = TRUE
NoVerdict == /\ verdict' = verdict /\ vkind' = vkind /\ vnew' = FALSE
Report == vnew => PrintT("V|" \o verdict)
=============================================================================
