---------------------------- MODULE Trace_StatefulAuto ----------------------------
(* Batch acceptor: recorded executions of the real StatefulAutonomous against StatefulAuto. *)
EXTENDS StatefulAuto, TraceKit
CONSTANTS Prop

tvars == <<savars, kvars>>
Shape(j) == [states |-> ToSet(j.states), first |-> j.first, durOf |-> j.durOf, nextOf |-> j.nextOf, var0 |-> j.var0]
TInit == KInit /\ Init(Shape(Batch[tid].shape))

Unobs == -1000000
B2I(b) == IF b THEN 1 ELSE 0
Diffs(ev, o) ==
    IF ev.e = "enable"
    THEN (IF \E s \in States : Timed(s) /\ o.dur[s] # dur'[s] THEN {"dur"} ELSE {})
         \cup (IF o.v # uv' THEN {"var"} ELSE {})
    ELSE IF ev.e # "iter" THEN {}
    ELSE IF Len(o.cb) # Len(out') THEN {"count"}
    ELSE IF Len(out') = 0 THEN {}
    ELSE LET e == out'[1]  c == o.cb[1] IN
         (IF e.s # c.s THEN {"names"} ELSE {})
         \cup (IF c.ic # -1 /\ c.ic # B2I(e.ic) THEN {"ic"} ELSE {})
         \cup (IF c.stm # Unobs /\ c.stm # e.stm THEN {"stm"} ELSE {})
         \cup (IF c.tm # Unobs /\ c.tm # e.tm THEN {"tm"} ELSE {})
         \cup (IF c.v # e.v THEN {"var"} ELSE {})

TStep ==
    /\ vkind = "" /\ l <= Len(Tr.steps) /\ l' = l + 1 /\ UNCHANGED tid
    /\ LET ev == Tr.steps[l].in  o == Tr.steps[l].out IN
       IF ev.e = "raised"
       THEN /\ UNCHANGED savars /\ UNCHANGED seen
            /\ Verdict("MISMATCH", [v |-> "MISMATCH", tid |-> Tr.id, l |-> l, clauses |-> {"raised"}, br |-> <<>>,
                                    exp |-> [raised |-> FALSE], obs |-> o])
       ELSE IF ~EvEnabled(ev)
       THEN /\ UNCHANGED savars /\ UNCHANGED seen
            /\ Verdict("STUCK", [v |-> "STUCK", tid |-> Tr.id, l |-> l, ev |-> ev])
       ELSE /\ EvNext(ev)
            /\ seen' = seen \cup ToSet(br') \cup (IF ev.e = "sibling" THEN {"Sibling"} ELSE {})
                            \cup (IF ev.e = "iter" /\ "av" \in DOMAIN ev /\ (ev.av # -1 \/ ev.ad # -1) /\ out' # <<>>
                                  THEN {"Assign"} ELSE {})
            /\ LET d == Diffs(ev, o) IN
               IF d # {}
               THEN Verdict("MISMATCH", [v |-> "MISMATCH", tid |-> Tr.id, l |-> l, clauses |-> d, br |-> br',
                                         exp |-> [cb |-> out', dur |-> dur', v |-> uv'], obs |-> o])
               ELSE IF l = Len(Tr.steps)
               THEN Verdict("ACCEPT", [v |-> "ACCEPT", tid |-> Tr.id, n |-> l, seen |-> seen'])
               ELSE NoVerdict
TSpec == TInit /\ [][TStep]_tvars
=============================================================================
