---------------------------- MODULE Trace_MagicRobot ----------------------------
(***************************************************************************)
(* Batch trace acceptor for MagicRobot.  Each event of a recorded run of   *)
(* the real startCompetition() loop is (a) compared, before it is applied, *)
(* with what the specification says the callback must observe (FPGA time,  *)
(* /robot/mode, every component attribute, injection complete, autonomous  *)
(* elapsed time; at a wait: the published feedback values), and (b) must   *)
(* be the event the specification allows next (callback order, blocking,   *)
(* thread exit).  Silent robot-thread steps are composed deterministically.*)
(*                                                                         *)
(* A failing clause owned by Prop is a MISMATCH.  A failing data clause    *)
(* owned by another property is adopted (the spec state is set to what was *)
(* observed) so that the rest of the trace is still checked for Prop; a    *)
(* failing order clause owned by another property ends the trace (FOREIGN).*)
(***************************************************************************)
EXTENDS MagicRobot, Json, IOUtils, TLCExt

CONSTANTS Prop

VARIABLES tid, l, verdict, vkind, vnew, seen, adopted, lastSw, mon

Batch == JsonDeserialize(IOEnv.TRACE_FILE)
T == Batch[tid]
tvars == <<rvars, tid, l, verdict, vkind, vnew, seen, adopted, lastSw, mon>>

ToSet(seq) == {seq[i] : i \in 1..Len(seq)}
Layout(j) == [comps |-> j.comps, has |-> j.has, resets |-> j.resets, plain |-> j.plain,
              feedbacks |-> {[o |-> j.feedbacks[i].o, key |-> j.feedbacks[i].key] : i \in 1..Len(j.feedbacks)},
              fbtypes |-> [k \in {j.feedbacks[i].key : i \in 1..Len(j.feedbacks)} |->
                             (LET i == CHOOSE i \in 1..Len(j.feedbacks) : j.feedbacks[i].key = k IN j.feedbacks[i].ty)],
              sm |-> ToSet(j.sm), teleAuto |-> j.teleAuto, modes |-> ToSet(j.modes), defmode |-> j.defmode,
              period |-> j.period, rp |-> IF "rp" \in DOMAIN j THEN j.rp ELSE TRUE]

TInit == /\ tid \in 1..Len(Batch) /\ l = 1 /\ verdict = "" /\ vkind = "" /\ vnew = FALSE /\ seen = {}
         /\ adopted = 0 /\ lastSw = FALSE /\ mon = [lastM |-> "", prevEnabled |-> FALSE, afterWake |-> FALSE, bad |-> "", fbc |-> <<>>,
                       fmsOn |-> Batch[tid].fms, pendingFatal |-> FALSE, fbRaised |-> FALSE, enab |-> {}, setups |-> {}]
         /\ Init(Layout(Batch[tid].shape), Batch[tid].fms)

J(v) == ToJson(v)
Verdict(kind, rec) == /\ verdict' = J(rec) /\ vkind' = kind /\ vnew' = TRUE
NoVerdict == /\ verdict' = verdict /\ vkind' = vkind /\ vnew' = FALSE

ValsDiffer(v) == \E c \in CompSet : \E a \in Attrs(c) : v[c][a] # rv[c][a]
FbDiffer(f) == \E k \in DOMAIN fbNT : f[k] # fbNT[k]
\* once published, the topic has the documented type for the getter's return hint
FbTypeDiffer(ft) == \E k \in DOMAIN fbNT : fbNT[k] # -1 /\ FbTypeString(sh.fbtypes[k]) # "" /\ ft[k] # FbTypeString(sh.fbtypes[k])

\* data clauses that fail for event ev in the current state (before ev is applied)
DataDiffs(ev) ==
    CASE ev.e = "cb" ->
            (IF ev.t # now THEN {"t"} ELSE {})
            \cup (IF ev.m # ntMode THEN {"m"} ELSE {})
            \cup (IF ValsDiffer(ev.vals) THEN {"vals"} ELSE {})
            \cup (IF ~ev.inj THEN {"inj"} ELSE {})
            \cup (IF ev.k = "auto.on_iteration" /\ ev.arg # now - autoT0 THEN {"arg"} ELSE {})
            \cup (IF ev.k = "execute" /\ ev.st # SmState(ev.o) THEN {"smstate"} ELSE {})
      [] ev.e = "wait" ->
            (IF ev.t # now THEN {"t"} ELSE {}) \cup (IF FbDiffer(ev.fb) THEN {"fb"} ELSE {})
            \cup (IF FbTypeDiffer(ev.fbt) THEN {"fbtype"} ELSE {})
      [] ev.e = "wake" -> IF ev.t # Max(now, alarm) THEN {"t"} ELSE {}
      [] OTHER -> {}

DataOwner(c) == CASE c = "t" -> {"C05"} [] c = "m" -> {"C05"} [] c = "vals" -> {"C10"}
                  [] c = "inj" -> {"C06"} [] c = "arg" -> {"C05"} [] c = "fb" -> {"C11"} [] c = "fbtype" -> {"C11"}
                  [] c = "smstate" -> {"C05"}

Lifecycle == {"setup", "on_enable", "on_disable"}
\* who owns a disagreement about WHICH event comes next
OrderOwner(ev) ==
    LET ek == IF ev.e = "cb" THEN ev.k ELSE ev.e
        sk == NextSite.k
    IN IF ev.e = "hang" THEN {"C05", "C07"}      \* the thread spins without ever reaching NotifierDelay.wait()
       \* the program ended (or went on) where the specification has it going on (ended): C07's; when what was still
       \* to come was a component's on_enable() / on_disable(), C06's as well ("on leaving, every component's on_disable()")
       ELSE IF ev.e = "exit" \/ pc \in {"crashed", "exited"}
       THEN {"C07"} \cup (IF ev.e = "exit" /\ ~ev.crashed /\ (sk \in Lifecycle \/ \E i \in 1..Len(todo) : todo[i].k \in Lifecycle)
                          THEN {"C06"} ELSE {})
       ELSE {"C05"}
            \cup (IF ek \in Lifecycle \/ sk \in Lifecycle THEN {"C06"} ELSE {})
            \* an execute() outside the on_enable() / on_disable() bracket (test or disabled mode; not enabled yet)
            \cup (IF ek = "execute" /\ (mode \notin {"auto", "teleop"}
                                        \/ (ev.o \in CompSet /\ sh.has[ev.o]["on_enable"] /\ ~en[ev.o]))
                  THEN {"C06"} ELSE {})
            \cup (IF ek = "feedback" \/ sk = "fbphase" THEN {"C11"} ELSE {})
            \cup (IF lastSw THEN {"C07"} ELSE {})
Owned(cs) == Prop = "ALL" \/ Prop \in cs

Adopt(ev, d) ==      \* take over observed data so that later clauses are still checked
    /\ now' = IF "t" \in d /\ ev.e # "wake" THEN ev.t ELSE IF "t" \in d /\ now > ev.t THEN ev.t ELSE now
    /\ alarm' = IF "t" \in d /\ ev.e = "wake" THEN ev.t ELSE alarm
    /\ ntMode' = IF "m" \in d THEN ev.m ELSE ntMode
    /\ rv' = IF "vals" \in d THEN [c \in CompSet |-> [a \in Attrs(c) |-> ev.vals[c][a]]] ELSE rv
    /\ fbNT' = IF "fb" \in d THEN [k \in DOMAIN fbNT |-> ev.fb[k]] ELSE fbNT
    /\ smReq' = IF "smstate" \in d THEN [c \in sh.sm |-> IF c = ev.o THEN ev.st = "go" ELSE smReq[c]] ELSE smReq
    /\ autoT0' = IF "arg" \in d THEN now' - ev.arg ELSE autoT0
    /\ UNCHANGED <<sh, chooser, chooserNew, ds, dsNew, fms, exit, selStr, pc, mode, todo, fbleft, en, nsetup, active, iterNo, mIter,
                   nfault, swallowed>>

(* ---- monitors: predicates over the recorded events only (no specification state), so that they keep
        judging a trace after its lock-step comparison ended with a FOREIGN verdict ---- *)
\* C10: the first callback after an enabled-mode iteration finds every will_reset_to attribute at its default
\* C11: between two waits every feedback getter is called exactly once (fbc: keys called since the last wake)
\* C07: the robot program ends with an exception while the FMS is attached; or a callback raised while it is not
\*      attached and the program went on (fmsOn follows the recorded driver-station events)
MonStep(ev) ==
    CASE ev.e = "cb" ->
            [lastM |-> ev.m, prevEnabled |-> mon.prevEnabled, afterWake |-> FALSE,
             fbc |-> IF ev.k = "feedback" THEN Append(mon.fbc, ev.key) ELSE mon.fbc,
             fmsOn |-> mon.fmsOn, pendingFatal |-> (ev.raise /\ ~mon.fmsOn),
             fbRaised |-> (ev.k = "feedback" /\ ev.raise),      \* the last callback was a feedback getter that raised
             \* components whose last lifecycle callback was on_enable(); components whose setup() was called
             enab |-> IF ev.k = "on_enable" THEN mon.enab \cup {ev.o} ELSE IF ev.k = "on_disable" THEN mon.enab \ {ev.o}
                      ELSE mon.enab,
             setups |-> IF ev.k = "setup" THEN mon.setups \cup {ev.o} ELSE mon.setups,
             bad |-> IF ev.k = "setup" /\ ev.o \in mon.setups THEN "mon:setup_called_twice"
                     ELSE IF ev.k = "execute" /\ ev.o \in CompSet
                        /\ (ev.m \notin {"auto", "teleop"} \/ (sh.has[ev.o]["on_enable"] /\ ev.o \notin mon.enab))
                     THEN "mon:execute_outside_enable_bracket"
                     ELSE IF mon.pendingFatal THEN "mon:went_on_after_fault_without_fms"
                     ELSE IF mon.afterWake /\ mon.prevEnabled
                        /\ \E c \in CompSet : \E a \in DOMAIN sh.resets[c] : ev.vals[c][a] # sh.resets[c][a]
                     THEN "mon:reset_attribute_survived_iteration" ELSE ""]
      [] ev.e = "wait" -> [mon EXCEPT !.prevEnabled = (mon.lastM \in {"auto", "teleop"}), !.fbc = <<>>,
                                      !.bad = IF mon.pendingFatal THEN "mon:went_on_after_fault_without_fms"
                                              ELSE IF \E k \in FbKeys : Cardinality({i \in 1..Len(mon.fbc) : mon.fbc[i] = k}) # 1
                                              THEN "mon:getter_not_called_exactly_once" ELSE ""]
      [] ev.e = "wake" -> [mon EXCEPT !.afterWake = TRUE, !.bad = ""]
      [] ev.e = "fms" -> [mon EXCEPT !.fmsOn = ev.b, !.bad = ""]
      [] ev.e = "exit" -> [mon EXCEPT !.bad = IF ev.crashed /\ mon.fmsOn /\ mon.fbRaised
                                                THEN "mon:raising_getter_killed_the_program_with_fms_attached"
                                                ELSE IF ev.crashed /\ mon.fmsOn THEN "mon:program_died_with_fms_attached"
                                                ELSE IF ~ev.crashed /\ mon.pendingFatal THEN "mon:went_on_after_fault_without_fms"
                                                ELSE ""]
      [] OTHER -> [mon EXCEPT !.bad = ""]
MonOwner(m) == IF m = "mon:getter_not_called_exactly_once" THEN {"C11"}
               ELSE IF m = "mon:raising_getter_killed_the_program_with_fms_attached" THEN {"C07", "C11"}
               ELSE IF m \in {"mon:program_died_with_fms_attached", "mon:went_on_after_fault_without_fms"} THEN {"C07"}
               ELSE IF m \in {"mon:setup_called_twice", "mon:execute_outside_enable_bracket"} THEN {"C06"}
               ELSE {"C10"}
MonMismatch(ev, m1) ==
    Verdict("MISMATCH", [v |-> "MISMATCH", tid |-> T.id, l |-> l, clauses |-> {m1.bad}, br |-> <<pc, mode>>,
                         exp |-> [defaults |-> sh.resets], obs |-> ev])

Consume ==
    LET ev == T.steps[l].in
        d  == DataDiffs(ev) \ (IF adopted = l THEN {"inj", "fbtype"} ELSE {})
        owners == UNION {DataOwner(c) : c \in d}
    IN
    IF ~EvEnabled(ev)
    THEN /\ UNCHANGED rvars /\ UNCHANGED <<seen, adopted, lastSw>> /\ l' = l + 1
         /\ IF Owned(OrderOwner(ev))
            THEN Verdict("MISMATCH", [v |-> "MISMATCH", tid |-> T.id, l |-> l, clauses |-> {"order"},
                                      br |-> <<pc, mode>>, exp |-> [next |-> NextSite, todo |-> todo, fbleft |-> fbleft],
                                      obs |-> ev])
            ELSE Verdict("FOREIGN", [v |-> "FOREIGN", tid |-> T.id, l |-> l, clauses |-> {"order"}])
    ELSE IF d # {} /\ Owned(owners)
    THEN /\ UNCHANGED rvars /\ UNCHANGED <<seen, adopted, lastSw>> /\ l' = l + 1
         /\ Verdict("MISMATCH", [v |-> "MISMATCH", tid |-> T.id, l |-> l, clauses |-> d, br |-> <<pc, mode>>,
                                 exp |-> [t |-> now, alarm |-> alarm, m |-> ntMode, vals |-> rv, fb |-> fbNT,
                                          arg |-> now - autoT0],
                                 obs |-> ev])
    ELSE IF d # {}
    THEN /\ Adopt(ev, d) /\ adopted' = l /\ UNCHANGED <<seen, lastSw>> /\ l' = l /\ NoVerdict
    ELSE /\ EvNext(ev)
         /\ seen' = seen \cup {IF ev.e = "cb" THEN mode \o "/" \o ev.k ELSE ev.e}
                         \cup (IF ev.e = "cb" /\ ev.raise THEN {IF pc' = "crashed" THEN "fatal" ELSE "swallow"} ELSE {})
                         \cup (IF ev.e = "cb" /\ ev.adv > 0 THEN {"overrun"} ELSE {})
                         \cup (IF ev.e = "cb" /\ ev.w # <<>> THEN {"write"} ELSE {})
                         \cup (IF ev.e = "cb" /\ "endc" \in DOMAIN ev /\ ev.endc THEN {"end_from_callback"} ELSE {})
                         \cup (IF ev.e = "cb" /\ ev.k = "execute" /\ ev.st = "go" THEN {"sm_go"} ELSE {})
         /\ lastSw' = (ev.e = "cb" /\ ev.raise)
         /\ UNCHANGED adopted /\ l' = l + 1
         /\ IF l = Len(T.steps)
            THEN Verdict("ACCEPT", [v |-> "ACCEPT", tid |-> T.id, n |-> l, seen |-> seen', adopted |-> adopted # 0])
            ELSE NoVerdict

\* after a FOREIGN verdict only the monitors keep running
MonTail ==
    LET ev == T.steps[l].in  m1 == MonStep(ev) IN
    /\ mon' = m1 /\ UNCHANGED rvars /\ UNCHANGED <<seen, adopted, lastSw>> /\ l' = l + 1
    /\ IF m1.bad # "" /\ Owned(MonOwner(m1.bad)) THEN MonMismatch(ev, m1) ELSE NoVerdict

TStep ==
    /\ l <= Len(T.steps)
    /\ \/ /\ vkind = ""
          /\ IF SilentEnabled
             THEN Silent /\ UNCHANGED <<l, seen, adopted, lastSw, mon>> /\ NoVerdict
             ELSE LET ev == T.steps[l].in  m1 == MonStep(ev) IN
                  IF m1.bad # "" /\ Owned(MonOwner(m1.bad))
                     /\ \/ EvEnabled(ev) /\ DataDiffs(ev) = {}
                        \/ ~EvEnabled(ev) /\ ~Owned(OrderOwner(ev))      \* (would be FOREIGN: the monitor's clause is Prop's)
                  THEN /\ mon' = m1 /\ UNCHANGED rvars /\ UNCHANGED <<seen, adopted, lastSw>> /\ l' = l + 1
                       /\ MonMismatch(ev, m1)
                  ELSE Consume /\ mon' = (IF l' = l THEN mon ELSE m1)
       \/ vkind = "FOREIGN" /\ MonTail
    /\ UNCHANGED tid

TSpec == TInit /\ [][TStep]_tvars
Report == vnew => PrintT("V|" \o verdict)
=============================================================================
