---------------------------- MODULE MC_MagicSM ----------------------------
(* Exhaustive (bounded) exploration of MagicSM: every interleaving of the public calls, in-state *)
(* actions and clock steps on a small set of machine shapes.                                      *)
EXTENDS MagicSM

CONSTANTS ShapeNames,   \* which of the shapes below to explore
          Steps,        \* clock steps (ticks)
          DurChoices,   \* values a NetworkTables client writes to duration topics
          MaxRel,       \* bound on now - start
          MaxDepth,     \* nesting of next_state_now
          MaxLevel,     \* bound on behaviour length
          UseInit,      \* explore engage(initial_state=..) / force=True
          MaxActs,      \* in-state actions per outermost iteration
          UseRaise      \* state functions may raise

Shp(states, first, default, durOf, nextOf, mf, auto) ==
    [states |-> states, first |-> first, default |-> default, durOf |-> durOf, nextOf |-> nextOf,
     mf |-> mf, auto |-> auto]

\* S1 chain: a timed 2 -> b timed 3 (last); c untimed
S1 == Shp({"a", "b", "c"}, "a", None,
          [s \in {"a", "b", "c"} |-> CASE s = "a" -> 2 [] s = "b" -> 3 [] OTHER -> NoDur],
          [s \in {"a", "b", "c"} |-> IF s = "a" THEN "b" ELSE None], {}, FALSE)
\* S2 must_finish + default: a timed 2 -> b timed 3 (last), m untimed must_finish, d default
S2 == Shp({"a", "b", "m", "d"}, "a", "d",
          [s \in {"a", "b", "m", "d"} |-> CASE s = "a" -> 2 [] s = "b" -> 3 [] OTHER -> NoDur],
          [s \in {"a", "b", "m", "d"} |-> IF s = "a" THEN "b" ELSE None], {"m"}, FALSE)
\* S3 timed first state that cycles onto itself, with a default state
S3 == Shp({"a", "d"}, "a", "d",
          [s \in {"a", "d"} |-> IF s = "a" THEN 2 ELSE NoDur],
          [s \in {"a", "d"} |-> IF s = "a" THEN "a" ELSE None], {}, FALSE)
\* S4 untimed first, timed must_finish last
S4 == Shp({"a", "f"}, "a", None,
          [s \in {"a", "f"} |-> IF s = "f" THEN 2 ELSE NoDur],
          [s \in {"a", "f"} |-> None], {"f"}, FALSE)
\* S5 single untimed state
S5 == Shp({"a"}, "a", None, [s \in {"a"} |-> NoDur], [s \in {"a"} |-> None], {}, FALSE)
\* S6 single timed state, last (cycles through done())
S6 == Shp({"a"}, "a", None, [s \in {"a"} |-> 2], [s \in {"a"} |-> None], {}, FALSE)
\* A1 autonomous: a timed 2 -> b timed 3 (last), c untimed
A1 == [S1 EXCEPT !.auto = TRUE]
\* A2 autonomous with must_finish and default
A2 == [S2 EXCEPT !.auto = TRUE]
\* A3 autonomous single timed
A3 == [S6 EXCEPT !.auto = TRUE]

ShapeOf(n) == CASE n = "S1" -> S1 [] n = "S2" -> S2 [] n = "S3" -> S3 [] n = "S4" -> S4
                [] n = "S5" -> S5 [] n = "S6" -> S6 [] n = "A1" -> A1 [] n = "A2" -> A2 [] n = "A3" -> A3

MCInit == \E n \in ShapeNames : Init(ShapeOf(n))

NonDef == States \ {sh.default}
TimedStates == {s \in States : Timed(s)}

TopInputs ==
    IF sh.auto
    THEN {[e |-> "aenable"], [e |-> "aiter"], [e |-> "adisable"], [e |-> "done"]}
    ELSE {[e |-> "engage", init |-> i, force |-> f] :
              i \in (IF UseInit THEN NonDef \cup {None} ELSE {None}),
              f \in (IF UseInit THEN BOOLEAN ELSE {FALSE})}
         \cup {[e |-> "done"], [e |-> "execute"]}
InStateInputs ==
    IF (stack # <<>> /\ stack[Len(stack)] = sh.default) \/ acted >= MaxActs
    THEN {}
    ELSE IF udone THEN {[e |-> "done"]}     \* nothing is selected after done() (see udone in MagicSM)
    ELSE {[e |-> "ns", s |-> s] : s \in NonDef} \cup {[e |-> "done"]}
         \cup (IF UseInit /\ ~sh.auto THEN {[e |-> "engage", init |-> None, force |-> f] : f \in BOOLEAN} ELSE {})
         \cup (IF Len(stack) < MaxDepth THEN {[e |-> "nsnow", s |-> s] : s \in NonDef} ELSE {})
Inputs ==
    IF AtTop
    THEN TopInputs \cup {[e |-> "tick", d |-> d] : d \in Steps}
         \cup {[e |-> "setdur", s |-> s, d |-> d] : s \in TimedStates, d \in DurChoices}
    ELSE InStateInputs \cup {[e |-> "ret"]}
         \cup (IF UseRaise THEN {[e |-> "raise", caught |-> c] : c \in (IF Len(stack) > 1 THEN BOOLEAN ELSE {FALSE})} ELSE {})

\* on_iteration() before any on_enable() is outside the lifecycle the selector guarantees
Allowed(ev) == ~(ev.e = "aiter" /\ ~latchSet)

MCNext == \E ev \in Inputs : Allowed(ev) /\ EvNext(ev)
MCSpec == MCInit /\ [][MCNext]_mvars

\* behaviours are not explored beyond an exception that left execute() (they are no longer judged, see Judged)
Bound == now - start <= MaxRel /\ TLCGet("level") <= MaxLevel /\ ~stale

\* absolute time does not matter, only time since the machine's origin
MCView == <<sh, se, eng, cur, now - start, ran, st0, exp, dur, ntcur, autoOn, latchSet, stack, acted, req, post,
            ncalls, nsn, dflag, udone, pure, inAuto, stale, out, br>>

EnabledAgrees == \A ev \in Inputs : EvEnabled(ev) = ENABLED EvNext(ev)

\* reachability probes: each must be FALSIFIED by TLC (the corresponding antecedent is reachable)
Probe_Cycle        == ~Has("ExpireLastCycle")
Probe_ExpireNext   == ~Has("ExpireNext")
Probe_ExpireStop   == ~Has("ExpireLastStop")
Probe_DefaultEnter == ~Has("DefaultEnter")
Probe_Deactivate   == ~(Has("Deactivate") \/ Has("NoState"))
Probe_MustFinishRunsUnrequested == ~(post /\ ~req /\ ncalls > 0 /\ cur \in sh.mf)
Probe_Nested       == ~(nsn > 0 /\ ncalls > 1)
Probe_AutoIdle     == ~Has("AutoIdle")
\* a state function raised out of a requested iteration and the next iteration ran a regular state on the stale request
Probe_StaleRequest == ~(Has("Raise") /\ se /\ AtTop)
=============================================================================
