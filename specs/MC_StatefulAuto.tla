---------------------------- MODULE MC_StatefulAuto ----------------------------
EXTENDS StatefulAuto
CONSTANTS ShapeNames, Steps, DurChoices, MaxTm, MaxPeriods, MaxLevel,
          Assign        \* explore state functions that assign the registered variable / their own duration attribute
VARIABLES clk, periods

Shp(states, first, durOf, nextOf) == [states |-> states, first |-> first, durOf |-> durOf, nextOf |-> nextOf, var0 |-> 1]
\* chain: a(2) -> b(3) -> c untimed
T1 == Shp({"a", "b", "c"}, "a", [s \in {"a", "b", "c"} |-> CASE s = "a" -> 2 [] s = "b" -> 3 [] OTHER -> NoDur],
          [s \in {"a", "b", "c"} |-> CASE s = "a" -> "b" [] s = "b" -> "c" [] OTHER -> None])
\* loop: a(2) -> b(1) -> a
T2 == Shp({"a", "b"}, "a", [s \in {"a", "b"} |-> IF s = "a" THEN 2 ELSE 1],
          [s \in {"a", "b"} |-> IF s = "a" THEN "b" ELSE "a"])
\* branch: a untimed first; b(2) last; c(1) -> b
T3 == Shp({"a", "b", "c"}, "a", [s \in {"a", "b", "c"} |-> CASE s = "b" -> 2 [] s = "c" -> 1 [] OTHER -> NoDur],
          [s \in {"a", "b", "c"} |-> CASE s = "c" -> "b" [] OTHER -> None])
\* single timed state, last
T4 == Shp({"a"}, "a", [s \in {"a"} |-> 2], [s \in {"a"} |-> None])
ShapeOf(n) == CASE n = "T1" -> T1 [] n = "T2" -> T2 [] n = "T3" -> T3 [] n = "T4" -> T4

MCInit == (\E n \in ShapeNames : Init(ShapeOf(n))) /\ clk = 0 /\ periods = 0

Inputs ==
    {[e |-> "enable"], [e |-> "disable"]}
    \cup {[e |-> "sdw", s |-> s, d |-> d] : s \in {x \in States : Timed(x)}, d \in DurChoices}
    \cup {[e |-> "varw", v |-> 2]}
    \cup (IF built /\ Assign THEN {[e |-> "iter", tm |-> clk + d, act |-> "none", s |-> None, av |-> w.av, ad |-> w.ad] :
                            w \in {[av |-> 3, ad |-> -1], [av |-> -1, ad |-> 1]}, d \in {x \in Steps : x <= 1}}
          ELSE {})
    \cup (IF built THEN {[e |-> "iter", tm |-> clk + d, act |-> a.act, s |-> a.s, av |-> -1, ad |-> -1] :
                            d \in Steps, a \in {[act |-> "none", s |-> None], [act |-> "done", s |-> None]}
                                              \cup {[act |-> "ns", s |-> s] : s \in States}}
          ELSE {})
MCNext == \E ev \in Inputs :
             /\ EvNext(ev)
             /\ clk' = IF ev.e = "iter" THEN ev.tm ELSE IF ev.e = "enable" THEN 0 ELSE clk
             /\ periods' = periods + (IF ev.e = "enable" THEN 1 ELSE 0)
MCSpec == MCInit /\ [][MCNext]_<<savars, clk, periods>>
Bound == clk <= MaxTm /\ periods <= MaxPeriods /\ TLCGet("level") <= MaxLevel
EnabledAgrees == \A ev \in Inputs : EvEnabled(ev) = ENABLED EvNext(ev)

Probe_ExpireNext == ~Has("ExpireNext")
Probe_ExpireEnd == ~Has("ExpireEnd")
Probe_Reenter == ~(Has("Enter") /\ periods >= 2)
Probe_UserNext == ~(Has("UserNext"))
\* a value assigned by a state function is gone after the next on_enable()
Probe_AssignedThenRestored == ~(Has("Enable") /\ periods >= 2 /\ uv # 3 /\ sdv # 3 /\ clk > 0)
=============================================================================
