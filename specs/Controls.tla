---------------------------- MODULE Controls ----------------------------
(***************************************************************************)
(* Five small timing helpers sharing one clock (ticks of 1/64 s):          *)
(*   kind "toggle"   robotpy_ext.control.toggle.Toggle (optionally with    *)
(*                   its _SteadyDebounce)                                  *)
(*   kind "bd"       robotpy_ext.control.button_debouncer.ButtonDebouncer  *)
(*   kind "pf"       robotpy_ext.misc.periodic_filter.PeriodicFilter       *)
(*   kind "wd"       robotpy_ext.misc.simple_watchdog.SimpleWatchdog (us)  *)
(* sh = [kind, period (ticks; 0 = no debounce), bypass (level), timeout    *)
(* (us)].  One action per public call; Tick advances the clock.            *)
(* Dev: mutations used to show the invariants have teeth.                  *)
(***************************************************************************)
EXTENDS Integers, Sequences, TLC
CONSTANTS Dev
VARIABLES sh, now,
          \* Toggle (+ steady debounce)
          released, tog, dbLatest, prevSig, lastFlip, flips,
          \* ButtonDebouncer
          bdLatest, lastTrue, trues, bdPeriod,
          \* PeriodicFilter
          pfLast, lastLowPass, lowPasses,
          \* SimpleWatchdog
          wdStart, wdExp, wdTimeout, wdLastPrint, wdEpochs, wdEnabled, prints,
          ret      \* what the last call returned / emitted
cvars == <<sh, now, released, tog, dbLatest, prevSig, lastFlip, flips, bdLatest, lastTrue, trues, bdPeriod, pfLast, lastLowPass,
           lowPasses, wdStart, wdExp, wdTimeout, wdLastPrint, wdEpochs, wdEnabled, prints, ret>>
tgl == <<released, tog, dbLatest, prevSig, lastFlip, flips>>
bdv == <<bdLatest, lastTrue, trues, bdPeriod>>
pfv == <<pfLast, lastLowPass, lowPasses>>
wdv == <<wdStart, wdExp, wdTimeout, wdLastPrint, wdEpochs, wdEnabled, prints>>

Init(shape, t0) ==
    /\ sh = shape /\ now = t0
    /\ released = FALSE /\ tog = FALSE /\ dbLatest = -shape.period /\ prevSig = FALSE /\ lastFlip = 0 /\ flips = 0
    /\ bdLatest = 0 /\ lastTrue = 0 /\ trues = 0 /\ bdPeriod = shape.period
    /\ pfLast = -shape.period /\ lastLowPass = 0 /\ lowPasses = 0
    /\ wdStart = 0 /\ wdExp = 0 /\ wdTimeout = shape.timeout /\ wdLastPrint = 0 /\ wdEpochs = 0 /\ wdEnabled = FALSE
    /\ prints = 0
    /\ ret = [r |-> FALSE]

Tick(d) == now' = now + d /\ ret' = [r |-> FALSE] /\ UNCHANGED <<sh, tgl, bdv, pfv, wdv>>

(* ---- Toggle ---- *)
\* the signal the toggle samples: the raw button, or the steady-debounced button
Debounced(level) ==
    IF sh.period = 0 THEN [sig |-> level, latest |-> dbLatest]
    ELSE IF now - dbLatest < sh.period THEN [sig |-> TRUE, latest |-> dbLatest]
    ELSE IF level THEN [sig |-> TRUE, latest |-> now]
    ELSE [sig |-> FALSE, latest |-> dbLatest]
Sample(level, acc) ==
    LET d == Debounced(level)
        edge == IF "toggle_no_edge" \in Dev THEN d.sig ELSE d.sig /\ ~released
        t1 == IF edge THEN ~tog ELSE tog
    IN /\ sh.kind = "toggle"
       /\ dbLatest' = d.latest /\ tog' = t1
       /\ released' = (IF d.sig /\ ~released THEN TRUE ELSE IF ~d.sig /\ released THEN FALSE ELSE released)
       /\ prevSig' = d.sig
       /\ lastFlip' = IF edge THEN now ELSE lastFlip
       /\ flips' = flips + (IF edge THEN 1 ELSE 0)
       /\ ret' = [r |-> IF acc = "off" THEN ~t1 ELSE t1]
       /\ UNCHANGED <<sh, now, bdv, pfv, wdv>>

(* ---- ButtonDebouncer ---- *)
BdGet(level) ==
    LET fire == level /\ (now - bdLatest > bdPeriod \/ "bd_no_period" \in Dev) IN
    /\ sh.kind = "bd"
    /\ bdLatest' = IF fire THEN now ELSE bdLatest
    /\ lastTrue' = IF fire THEN now ELSE lastTrue
    /\ trues' = trues + (IF fire THEN 1 ELSE 0)
    /\ ret' = [r |-> fire]
    /\ UNCHANGED <<sh, now, tgl, pfv, wdv, bdPeriod>>
\* set_debounce_period(): only the period changes; the running window is measured from the last True as before
BdSetPeriod(p) ==
    /\ sh.kind = "bd" /\ bdPeriod' = p /\ ret' = [r |-> FALSE]
    /\ UNCHANGED <<sh, now, tgl, pfv, wdv, bdLatest, lastTrue, trues>>

(* ---- PeriodicFilter ---- *)
PfFilter(level) ==
    LET slot == now - pfLast > sh.period
        pass == slot \/ (level >= sh.bypass /\ "pf_no_bypass" \notin Dev)
        low  == pass /\ level < sh.bypass
    IN /\ sh.kind = "pf"
       /\ pfLast' = IF slot THEN now ELSE pfLast
       /\ lastLowPass' = IF low THEN now ELSE lastLowPass
       /\ lowPasses' = lowPasses + (IF low THEN 1 ELSE 0)
       /\ ret' = [r |-> pass]
       /\ UNCHANGED <<sh, now, tgl, bdv, wdv>>

(* ---- SimpleWatchdog (microseconds) ---- *)
\* microseconds per tick: 1/64 s, unless the history is on another grid (the watchdog counts whole microseconds: histories
\* on grids that are not binary fractions of a second exercise timeouts such as 0.70049 s exactly at their boundary)
TickUs == IF "tickus" \in DOMAIN sh THEN sh.tickus ELSE 15625
NowUs == now * TickUs
WdReset ==
    /\ sh.kind = "wd" /\ wdStart' = NowUs /\ wdExp' = NowUs + wdTimeout /\ wdEpochs' = 0 /\ wdEnabled' = TRUE
    /\ ret' = [r |-> FALSE] /\ UNCHANGED <<sh, now, tgl, bdv, pfv, wdTimeout, wdLastPrint, prints>>
WdSetTimeout(t) ==
    /\ sh.kind = "wd" /\ wdTimeout' = t /\ wdStart' = NowUs /\ wdExp' = NowUs + t /\ wdEpochs' = 0 /\ wdEnabled' = TRUE
    /\ ret' = [r |-> FALSE] /\ UNCHANGED <<sh, now, tgl, bdv, pfv, wdLastPrint, prints>>
\* enable() is what reset() does; disable() does nothing (as implemented: expiry keeps being measured from the last reset)
WdDisable ==
    /\ sh.kind = "wd" /\ ret' = [r |-> FALSE] /\ UNCHANGED <<sh, now, tgl, bdv, pfv, wdv>>
\* getTime(): time since the watchdog was last fed; getTimeout()
WdGetTime ==
    /\ sh.kind = "wd" /\ ret' = [r |-> NowUs - wdStart] /\ UNCHANGED <<sh, now, tgl, bdv, pfv, wdv>>
WdGetTimeout ==
    /\ sh.kind = "wd" /\ ret' = [r |-> wdTimeout] /\ UNCHANGED <<sh, now, tgl, bdv, pfv, wdv>>
WdIsExpired ==
    /\ sh.kind = "wd" /\ ret' = [r |-> NowUs > wdExp]
    /\ UNCHANGED <<sh, now, tgl, bdv, pfv, wdv>>
WdEpoch ==
    /\ sh.kind = "wd" /\ wdEpochs' = wdEpochs + 1 /\ ret' = [r |-> FALSE]
    /\ UNCHANGED <<sh, now, tgl, bdv, pfv, wdStart, wdExp, wdTimeout, wdLastPrint, wdEnabled, prints>>
WdPrint ==
    LET p == NowUs > wdExp /\ (NowUs - wdLastPrint > 1000000 \/ "wd_no_ratelimit" \in Dev) IN
    /\ sh.kind = "wd"
    /\ wdLastPrint' = IF p THEN NowUs ELSE wdLastPrint
    /\ prints' = prints + (IF p THEN 1 ELSE 0)
    /\ ret' = [r |-> p, nep |-> IF p THEN wdEpochs ELSE 0, fed |-> IF p THEN NowUs - wdStart ELSE 0]
    /\ UNCHANGED <<sh, now, tgl, bdv, pfv, wdStart, wdExp, wdTimeout, wdEpochs, wdEnabled>>

EvEnabled(ev) ==
    CASE ev.e = "tick" -> TRUE
      [] ev.e = "sample" -> sh.kind = "toggle"
      [] ev.e \in {"bget", "bdset"} -> sh.kind = "bd"
      [] ev.e = "rec" -> sh.kind = "pf"
      [] ev.e \in {"reset", "enable", "disable", "gettime", "gettimeout", "settimeout", "expired", "epoch", "print"} -> sh.kind = "wd"
      [] OTHER -> FALSE
EvNext(ev) ==
    CASE ev.e = "tick" -> Tick(ev.d)
      [] ev.e = "sample" -> Sample(ev.level, ev.acc)
      [] ev.e = "bget" -> BdGet(ev.level)
      [] ev.e = "bdset" -> BdSetPeriod(ev.p)
      [] ev.e = "rec" -> PfFilter(ev.lvl)
      [] ev.e = "reset" -> WdReset
      [] ev.e = "enable" -> WdReset
      [] ev.e = "disable" -> WdDisable
      [] ev.e = "gettime" -> WdGetTime
      [] ev.e = "gettimeout" -> WdGetTimeout
      [] ev.e = "settimeout" -> WdSetTimeout(ev.t)
      [] ev.e = "expired" -> WdIsExpired
      [] ev.e = "epoch" -> WdEpoch
      [] ev.e = "print" -> WdPrint

(* ---- C19 ---- *)
\* a Toggle changes state exactly on a released-to-pressed edge of the signal it samples
C19_FlipIffEdge == [][(sh.kind = "toggle" /\ (prevSig' # prevSig \/ tog' # tog)) =>
                        ((tog' # tog) <=> (~prevSig /\ prevSig'))]_cvars
\* with a debounce period two changes are never less than the period apart
C19_DebounceSpacing == [][(sh.kind = "toggle" /\ sh.period > 0 /\ flips' = flips + 1 /\ flips >= 1)
                            => now - lastFlip >= sh.period]_cvars
\* ButtonDebouncer: True only while pressed; two True results more than a period apart; and it does fire when due
C19_BdSpacing == [][(sh.kind = "bd" /\ trues' = trues + 1 /\ trues >= 1) => now - lastTrue > bdPeriod]_cvars
C19_BdFiresWhenDue == [][(sh.kind = "bd" /\ bdLatest' # bdLatest) => ret'.r]_cvars
\* PeriodicFilter: lower-level records pass at most once per period
C19_PfSpacing == [][(sh.kind = "pf" /\ lowPasses' = lowPasses + 1 /\ lowPasses >= 1) => now - lastLowPass > sh.period]_cvars
\* SimpleWatchdog: overrun warnings more than a second apart
C19_WdPrintSpacing == [][(sh.kind = "wd" /\ prints' = prints + 1 /\ prints >= 1) => NowUs - wdLastPrint > 1000000]_cvars
\* ... and expiry is reported exactly when more than the timeout elapsed since the last reset
C19_WdExpiry == (sh.kind = "wd" /\ wdEnabled) => wdExp = wdStart + wdTimeout
=============================================================================
