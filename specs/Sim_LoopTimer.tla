---------------------------- MODULE Sim_LoopTimer ----------------------------
EXTENDS MC_LoopTimer, Json
CONSTANTS SimDepth
VARIABLES hist
SimInputs == Inputs \cup {[x |-> i, e |-> "measure", tie |-> TRUE] : i \in 1..8}
SimNext == \E ev \in SimInputs : EvNext(ev) /\ hist' = Append(hist, ev)
SimSpec == Init /\ hist = <<>> /\ [][SimNext]_<<lvars, hist>>
Emit == (Len(hist) = SimDepth) => PrintT("S|" \o ToJson([shape |-> [none |-> 0], events |-> hist]))
SimStop == Len(hist) <= SimDepth
=============================================================================
