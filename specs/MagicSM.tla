---------------------------- MODULE MagicSM ----------------------------
(***************************************************************************)
(* magicbot.StateMachine / magicbot.AutonomousStateMachine.                *)
(*                                                                         *)
(* One action per public call, per user callback boundary and per          *)
(* critical section of execute():                                          *)
(*   Engage, UserDone (done()/on_disable()), Tick, SetDur (NT write to a   *)
(*   '<state>_duration' topic), CallExecute (execute() up to the first     *)
(*   state function it calls), in-state UserNextState / NextStateNow /     *)
(*   UserDone, Return (tail of execute()), Raise (the running state        *)
(*   function raises: caught by the state function that called             *)
(*   next_state_now(), or leaving the outermost execute()), and for the    *)
(*   autonomous variant AEnable / AIter / ADisable.                        *)
(*                                                                         *)
(* Time is in ticks of 1/64 s (exact in IEEE doubles, see DESIGN 3.2).     *)
(* The machine's shape is the variable sh (never changes after Init) so    *)
(* that one acceptor run can judge traces of many different machines.      *)
(*                                                                         *)
(* Dev is the set of named deviations: {} is what the properties           *)
(* C01-C04/C13 require.  cycle_no_restart and default_no_done describe     *)
(* the pinned tree before the two fix: commits; no_deactivate and          *)
(* auto_keeps_request are mutations used to show the invariants have teeth.*)
(* nested_consumes_request is the pinned tree before fix D7: the execute()  *)
(* nested inside next_state_now() cleared the engage request when it ended,*)
(* so a second next_state_now() from the same state function ran           *)
(* unrequested - its target was dropped and the machine stopped.           *)
(***************************************************************************)
EXTENDS Integers, Sequences, FiniteSets, TLC

CONSTANTS Dev

None  == "none"
NoDur == -1
Inf   == 1000000

VARIABLES
    sh,      \* [states, first, default, durOf, nextOf, mf, auto]
    se,      \* engage() was called since the end of the last execute()      (__should_engage)
    eng,     \* is_executing                                                  (__engaged)
    cur,     \* current state or None                                         (__state)
    start,   \* machine origin, ticks                                         (__start)
    now,     \* FPGA clock, ticks
    ran, st0, exp,   \* per state: ran since entry, entry time, expiry (relative to start)
    dur,     \* per state: value of the '<state>_duration' tunable (NoDur for untimed)
    ntcur,   \* the current_state tunable
    autoOn,  \* AutonomousStateMachine latch (its own __engaged)
    latchSet,\* the latch exists: on_enable() or done() ran at least once (on_iteration() before that is
             \* outside the lifecycle the selector guarantees; MC/Sim do not explore it)
    stack,   \* state functions currently executing (next_state_now re-enters execute)
    acted,   \* number of in-state actions (next_state, next_state_now, done, engage) performed so far in the
             \* current outermost iteration (a state function may perform several; MC bounds the number)
    req,     \* se as sampled when the outermost execute() began
    post,    \* the last step completed an outermost execute()
    ncalls,  \* state functions called in the current outermost iteration
    nsn,     \* next_state_now() calls in the current outermost iteration
    dflag,   \* done()/on_disable() was called since the last engage()
    udone,   \* done() was called (by user code, or by an execute() nested in next_state_now) while a state function
             \* of the current outermost iteration was running.  A state function that
             \* selects a state (next_state, next_state_now, engage) AFTER calling done() leaves a state pending on
             \* a stopped machine; the transitions below describe that too (the acceptor judges such traces), but
             \* the invariants are stated for, and MC explores, programs that do not do it (DESIGN 6).
    pure,    \* since the machine (re)started only expiry-driven transitions happened
    inAuto,  \* the current outermost iteration was started by on_iteration()
    stale,   \* an exception has left an outermost execute() / on_iteration() in this behaviour (the request was not
             \* consumed, the latch not re-computed: from here on the behaviour is followed, not judged)
    out,     \* callbacks produced by the last step (observation)
    br       \* branch labels taken by the last step (clause ownership)

mvars == <<sh, se, eng, cur, start, now, ran, st0, exp, dur, ntcur, autoOn, latchSet, stack, acted, req, post,
           ncalls, nsn, dflag, udone, pure, inAuto, stale, out, br>>

States   == sh.states
IsDef(s) == s = sh.default
MF(s)    == s \in sh.mf \/ s = sh.default
Regular(s) == ~MF(s)
Timed(s) == sh.durOf[s] # NoDur

Init(shape) ==
    /\ sh = shape
    /\ se = FALSE /\ eng = FALSE /\ cur = None /\ start = 0 /\ now = 0
    /\ ran = [s \in shape.states |-> FALSE]
    /\ st0 = [s \in shape.states |-> 0]
    /\ exp = [s \in shape.states |-> Inf]
    /\ dur = [s \in shape.states |-> shape.durOf[s]]
    /\ ntcur = "" /\ autoOn = FALSE /\ latchSet = FALSE /\ stack = <<>> /\ acted = 0 /\ req = FALSE /\ post = FALSE
    /\ ncalls = 0 /\ nsn = 0 /\ dflag = FALSE /\ udone = FALSE /\ pure = FALSE /\ inAuto = FALSE
    /\ stale = FALSE /\ out = <<>> /\ br = <<>>

(* the part of the state execute() works on, as a record, so that execute() is one operator *)
Rec == [se |-> se, eng |-> eng, cur |-> cur, start |-> start, ran |-> ran, st0 |-> st0,
        exp |-> exp, ntcur |-> ntcur, autoOn |-> autoOn, pure |-> pure, out |-> <<>>, br |-> <<>>]

\* next_state(s).  Stale st0/exp are normalised: the specification never reads them before the
\* initial call rewrites them.
RNextState(r, s) == [r EXCEPT !.ran[s] = FALSE, !.st0[s] = 0, !.exp[s] = Inf, !.ntcur = s, !.cur = s]

\* done(); the autonomous variant also withdraws the request and drops its latch
RDone(r) == [r EXCEPT !.cur = None, !.eng = FALSE, !.ntcur = "",
                      !.se = IF sh.auto /\ "auto_keeps_request" \notin Dev THEN FALSE ELSE @,
                      !.autoOn = IF sh.auto THEN FALSE ELSE @,
                      !.out = Append(@, [e |-> "done"])]
Tag(r, b) == [r EXCEPT !.br = Append(@, b)]
NestedConsumes == "nested_consumes_request" \in Dev

(***************************************************************************)
(* execute() from its entry up to (and including) the call of one state    *)
(* function, or up to its end when no state function is called.            *)
(***************************************************************************)
Exec(r0) ==
  IF ~r0.eng /\ ~r0.se /\ sh.default = None
  THEN [r |-> Tag(r0, "EarlyReturn"), call |-> None, early |-> TRUE]
  ELSE
  LET starting == ~r0.eng /\ r0.se
      \* the machine (re)starts its clock; a state that was running while the machine was stopped (a must_finish
      \* state selected by the default state or after done()) is entered afresh on the new clock
      r1 == IF starting
            THEN Tag([r0 EXCEPT !.start = now, !.eng = TRUE, !.pure = (r0.cur = sh.first),
                                !.ran = IF r0.cur # None THEN [r0.ran EXCEPT ![r0.cur] = FALSE] ELSE r0.ran], "Start")
            ELSE r0
      tm1 == now - r1.start
      s0 == r1.cur
      expired == s0 # None /\ r1.ran[s0] /\ r1.exp[s0] < tm1
      last == expired /\ sh.nextOf[s0] = None
      d0  == RDone(r1)
      cyc == last /\ d0.se            \* done() first, then: still requested -> start over
      r2 == IF ~expired THEN r1
            ELSE IF last THEN
                   IF cyc THEN
                      IF "cycle_no_restart" \in Dev
                      THEN Tag(RNextState(d0, sh.first), "ExpireLastCycle")
                      ELSE Tag(RNextState([d0 EXCEPT !.start = r1.start + r1.exp[s0], !.eng = TRUE,
                                                     !.pure = TRUE], sh.first), "ExpireLastCycle")
                   ELSE Tag(d0, "ExpireLastStop")
                 ELSE Tag(RNextState(r1, sh.nextOf[s0]), "ExpireNext")
      tm  == now - r2.start
      \* the instant the state entered now is deemed to have started
      nss == IF ~expired THEN tm
             ELSE IF cyc /\ "cycle_no_restart" \notin Dev THEN 0 ELSE r1.exp[s0]
      sA == IF last /\ ~cyc THEN None ELSE r2.cur
      deact == ~(r2.se \/ (sA # None /\ (MF(sA) \/ "no_deactivate" \in Dev)))
      sB == IF deact THEN None ELSE sA
      toDef == sB = None /\ sh.default # None
      r3 == IF toDef /\ r2.cur # sh.default
            THEN LET d == IF "default_no_done" \in Dev \/ last \/ ~r2.eng THEN r2 ELSE RDone(r2)
                 IN Tag([d EXCEPT !.ran[sh.default] = FALSE, !.st0[sh.default] = 0,
                                  !.exp[sh.default] = Inf, !.cur = sh.default], "DefaultFallback")
            ELSE IF deact /\ sA # None THEN Tag(r2, "Deactivate") ELSE r2
      sC == IF toDef THEN sh.default ELSE sB
  IN IF sC # None THEN
        LET initial == ~r3.ran[sC]
            r4 == IF initial
                  THEN [r3 EXCEPT !.ran[sC] = TRUE, !.st0[sC] = nss,
                                  !.exp[sC] = IF dur[sC] = NoDur THEN Inf ELSE nss + dur[sC]]
                  ELSE r3
            b  == IF toDef THEN "DefaultEnter" ELSE IF initial THEN "Enter" ELSE "Continue"
        IN [r |-> Tag([r4 EXCEPT !.out = Append(@, [e |-> "call", s |-> sC, tm |-> tm,
                                                    stm |-> tm - r4.st0[sC], ic |-> initial])], b),
            call |-> sC, early |-> FALSE]
     ELSE [r |-> (IF last THEN r3 ELSE Tag(RDone(r3), "NoState")), call |-> None, early |-> FALSE]

Commit(r) ==
    /\ se' = r.se /\ eng' = r.eng /\ cur' = r.cur /\ start' = r.start /\ ran' = r.ran
    /\ st0' = r.st0 /\ exp' = r.exp /\ ntcur' = r.ntcur /\ autoOn' = r.autoOn /\ pure' = r.pure
    /\ out' = r.out /\ br' = r.br

AtTop   == stack = <<>>
InState == stack # <<>>

(***************************************************************************)
(* public calls made between iterations                                    *)
(***************************************************************************)
\* engage(): between iterations, or from inside a (non-default) state function - there it only matters with
\* force=True, because the request flag is cleared again when execute() ends
Engage(init, force) ==
    /\ (AtTop \/ InState)
    /\ LET r1  == [Rec EXCEPT !.se = TRUE]
           tgt == IF init = None THEN sh.first ELSE init
           go  == force \/ cur = None \/ cur = sh.default
           r2  == IF go THEN [RNextState(r1, tgt) EXCEPT !.pure = FALSE] ELSE r1
       IN Commit(r2)
    /\ acted' = (IF stack # <<>> THEN acted + 1 ELSE 0)
    /\ post' = FALSE /\ dflag' = FALSE
    /\ req' = (req \/ stack # <<>>)      \* an engage() made by the running state function counts for this iteration
    /\ UNCHANGED <<sh, now, dur, stack, ncalls, nsn, udone, inAuto, latchSet, stale>>

UserDone ==        \* done() or on_disable(), between iterations or from inside a state function
    /\ (AtTop \/ InState)
    /\ Commit(RDone(Rec))
    /\ acted' = (IF stack # <<>> THEN acted + 1 ELSE 0) /\ post' = FALSE /\ dflag' = TRUE
    /\ udone' = (stack # <<>>)
    /\ latchSet' = (latchSet \/ sh.auto)
    /\ UNCHANGED <<sh, now, dur, stack, req, ncalls, nsn, inAuto, stale>>

Tick(d) ==
    /\ AtTop /\ now' = now + d /\ out' = <<>> /\ br' = <<>> /\ post' = FALSE
    /\ UNCHANGED <<sh, se, eng, cur, start, ran, st0, exp, dur, ntcur, autoOn, latchSet, stack, acted, req,
                   ncalls, nsn, dflag, udone, pure, inAuto, stale>>

SetDur(s, d) ==    \* a NetworkTables client writes the duration topic
    /\ AtTop /\ s \in States /\ Timed(s) /\ dur' = [dur EXCEPT ![s] = d]
    /\ out' = <<>> /\ br' = <<>> /\ post' = FALSE /\ pure' = FALSE
    /\ UNCHANGED <<sh, se, eng, cur, start, now, ran, st0, exp, ntcur, autoOn, latchSet, stack, acted, req,
                   ncalls, nsn, dflag, udone, inAuto, stale>>

(***************************************************************************)
(* execute(), state functions, return                                      *)
(***************************************************************************)
\* end of an outermost iteration: the autonomous latch follows is_executing
LatchAfter(r, auto) == IF auto THEN [r EXCEPT !.autoOn = r.eng] ELSE r

EnterExec(r0, top, auto) ==
    LET x == Exec(r0) IN
    /\ latchSet' = (latchSet \/ (sh.auto /\ \E i \in 1..Len(x.r.out) : x.r.out[i].e = "done"))
    /\ IF x.call # None
       THEN /\ Commit(x.r) /\ stack' = Append(stack, x.call) /\ acted' = (IF top THEN 0 ELSE acted + 1) /\ post' = FALSE
            /\ ncalls' = (IF top THEN 0 ELSE ncalls) + 1 /\ stale' = stale
       ELSE /\ LET consumes == top \/ NestedConsumes
                   r1 == IF x.early \/ ~consumes THEN x.r ELSE [x.r EXCEPT !.se = FALSE]
               IN Commit(IF top THEN LatchAfter(r1, auto) ELSE r1)
            /\ stack' = stack /\ acted' = (IF top THEN 0 ELSE acted + 1) /\ post' = top
            /\ ncalls' = (IF top THEN 0 ELSE ncalls) /\ stale' = stale

CallExecute ==
    /\ AtTop /\ req' = se /\ nsn' = 0 /\ inAuto' = FALSE
    /\ EnterExec(Rec, TRUE, FALSE) /\ udone' = FALSE
    /\ UNCHANGED <<sh, now, dur, dflag>>

UserNextState(s) ==
    /\ InState /\ s \in States
    /\ Commit([RNextState(Rec, s) EXCEPT !.pure = FALSE]) /\ acted' = acted + 1 /\ post' = FALSE
    /\ UNCHANGED <<sh, now, dur, stack, req, ncalls, nsn, dflag, udone, inAuto, latchSet, stale>>

NextStateNow(s) ==
    /\ InState /\ s \in States
    /\ nsn' = nsn + 1
    /\ EnterExec([RNextState(Rec, s) EXCEPT !.pure = FALSE], FALSE, FALSE)
    /\ udone' = (udone \/ \E i \in 1..Len(out') : out'[i].e = "done")    \* the nested execute() stopped the machine
    /\ UNCHANGED <<sh, now, dur, req, dflag, inAuto>>

Return ==
    /\ stack # <<>>
    /\ stack' = SubSeq(stack, 1, Len(stack) - 1)
    /\ acted' = acted
    \* the request belongs to the iteration: only the outermost execute() consumes it (D7)
    /\ se' = (IF Len(stack) = 1 \/ NestedConsumes THEN FALSE ELSE se)
    /\ br' = <<>> /\ out' = <<>> /\ post' = (Len(stack) = 1)
    /\ autoOn' = IF Len(stack) = 1 /\ inAuto THEN eng ELSE autoOn
    /\ stale' = stale
    /\ UNCHANGED <<sh, eng, cur, start, now, ran, st0, exp, dur, ntcur, req, ncalls, nsn, dflag, udone,
                   pure, inAuto, latchSet>>

\* The running state function raises.  caught: the state function one frame below - the one that called
\* next_state_now() - catches the exception and carries on (the nested frame is gone, nothing else happened).
\* Otherwise the exception leaves the outermost execute() / on_iteration(): every frame is gone, and - as
\* implemented - the engage() request is NOT consumed (execute() is left before the flag is cleared) and the
\* autonomous latch is not re-computed.  C01-C04/C13 do not quantify over raising state functions; this is what
\* the code does, so that everything after the exception is still judged.
Raise(caught) ==
    /\ stack # <<>> /\ (caught => Len(stack) > 1)
    /\ stack' = (IF caught THEN SubSeq(stack, 1, Len(stack) - 1) ELSE <<>>)
    /\ br' = <<"Raise">> /\ out' = <<>> /\ post' = FALSE
    /\ stale' = (stale \/ ~caught)
    /\ UNCHANGED <<sh, se, eng, cur, start, now, ran, st0, exp, dur, ntcur, autoOn, latchSet, acted, req, ncalls, nsn,
                   dflag, udone, pure, inAuto>>

(***************************************************************************)
(* AutonomousStateMachine                                                  *)
(***************************************************************************)
\* on_enable(): a new autonomous period.  It always starts from the first state: a machine that is still running
\* (the previous period was not ended with on_disable() - the selector documents disable() as optional), or that has
\* a state pending, is stopped through done() first.  "enable_keeps_running" is the tree before that was repaired.
AEnable ==
    /\ AtTop /\ sh.auto
    /\ LET r0 == IF (eng \/ ntcur # "") /\ "enable_keeps_running" \notin Dev THEN RDone(Rec) ELSE Rec
           r1 == Tag([r0 EXCEPT !.autoOn = TRUE], "AutoEnable")
       IN Commit(r1)
    /\ latchSet' = TRUE /\ post' = FALSE
    /\ dflag' = (dflag \/ ((eng \/ ntcur # "") /\ "enable_keeps_running" \notin Dev))
    /\ UNCHANGED <<sh, now, dur, stack, acted, req, ncalls, nsn, udone, inAuto, stale>>

AIter ==           \* on_iteration(): if latched, engage(); execute(); latch := is_executing
    /\ AtTop /\ sh.auto
    /\ IF autoOn
       THEN /\ LET r1 == [Rec EXCEPT !.se = TRUE]
                   r2 == IF cur = None \/ cur = sh.default
                         THEN [RNextState(r1, sh.first) EXCEPT !.pure = FALSE] ELSE r1
               IN EnterExec(r2, TRUE, TRUE)
            /\ req' = TRUE /\ nsn' = 0 /\ inAuto' = TRUE /\ dflag' = FALSE /\ udone' = FALSE
            /\ UNCHANGED <<sh, now, dur>>
       ELSE /\ out' = <<>> /\ br' = <<"AutoIdle">> /\ post' = FALSE
            /\ UNCHANGED <<sh, se, eng, cur, start, now, ran, st0, exp, dur, ntcur, autoOn, latchSet,
                           stack, acted, req, ncalls, nsn, dflag, udone, pure, inAuto, stale>>

ADisable == UserDone /\ sh.auto

\* on_enable() of a plain StateMachine component (the robot calls it on entering teleop / autonomous): nothing happens
PlainEnable ==
    /\ AtTop /\ ~sh.auto /\ out' = <<>> /\ br' = <<>> /\ post' = FALSE
    /\ UNCHANGED <<sh, se, eng, cur, start, now, ran, st0, exp, dur, ntcur, autoOn, latchSet, stack, acted, req,
                   ncalls, nsn, dflag, udone, pure, inAuto, stale>>

(* event-indexed next-state relation: the single definition used by MC, Sim and Trace *)
EvNext(ev) ==
    CASE ev.e = "engage"   -> Engage(ev.init, ev.force)
      [] ev.e = "enable"   -> PlainEnable
      [] ev.e = "done"     -> UserDone
      [] ev.e = "disable"  -> UserDone /\ AtTop
      [] ev.e = "tick"     -> Tick(ev.d)
      [] ev.e = "setdur"   -> SetDur(ev.s, ev.d)
      [] ev.e = "execute"  -> CallExecute
      [] ev.e = "ns"       -> UserNextState(ev.s)
      [] ev.e = "nsnow"    -> NextStateNow(ev.s)
      [] ev.e = "ret"      -> Return
      [] ev.e = "raise"    -> Raise(ev.caught)
      [] ev.e = "aenable"  -> AEnable
      [] ev.e = "aiter"    -> AIter
      [] ev.e = "adisable" -> ADisable /\ AtTop

\* the enabling condition of EvNext(ev), spelled out (the acceptor uses it instead of ENABLED,
\* MC_MagicSM checks that the two agree)
EvEnabled(ev) ==
    CASE ev.e \in {"tick", "execute", "disable"} -> AtTop
      [] ev.e = "enable"  -> AtTop /\ ~sh.auto
      [] ev.e = "engage"  -> AtTop \/ InState
      [] ev.e = "setdur"  -> AtTop /\ ev.s \in States /\ Timed(ev.s)
      [] ev.e = "done"    -> AtTop \/ InState
      [] ev.e \in {"ns", "nsnow"} -> InState /\ ev.s \in States
      [] ev.e = "ret"     -> stack # <<>>
      [] ev.e = "raise"   -> stack # <<>> /\ (ev.caught => Len(stack) > 1)
      [] ev.e \in {"aenable", "aiter", "adisable"} -> AtTop /\ sh.auto
      [] OTHER -> FALSE

Obs == [exec |-> eng, cur |-> ntcur, cb |-> out]

(***************************************************************************)
(* The properties, as invariants / action properties of the specification  *)
(***************************************************************************)
Calls == SelectSeq(out, LAMBDA e : e.e = "call")
Dones == SelectSeq(out, LAMBDA e : e.e = "done")
Has(b) == \E i \in 1..Len(br) : br[i] = b
\* C01-C04/C13 are stated for state functions that return; once an exception has left execute() the behaviour
\* is described (the acceptor follows it) but no longer judged
Judged == ~stale

\* C01: a regular (neither default nor must_finish) state function is called only in an iteration
\*      before which engage() was called
C01_RegularOnlyWhenRequested ==
    [][\A i \in 1..Len(Calls') : (Judged' /\ out' # out /\ Regular(Calls'[i].s)) => req']_mvars
\* C01: without the request the machine is stopped unless it sits in a must_finish state
\*      (an execute() that begins without the request while a regular state is current stops the machine)
C01_StopsWithoutRequest ==
    [][(Judged' /\ AtTop /\ ~se /\ cur # None /\ Regular(cur) /\ (stack' # <<>> \/ post') /\ ~inAuto')
          => (cur' = None \/ cur' = sh.default)]_mvars
\*      ... and an iteration that ran no state function at all leaves no regular state current
C01_IdleIterationLeavesNothing ==
    (Judged /\ post /\ ~req /\ ncalls = 0) => (cur = None \/ cur = sh.default)
\* C01: requested and not done()'d: exactly one state function per iteration, plus one per next_state_now
C01_ExactlyOne ==
    (Judged /\ post /\ req /\ ~dflag /\ ~sh.auto) => (ncalls = 1 + nsn)
\* C01: the default state never runs in an iteration that was requested and not done()'d
C01_NoDefaultWhileRequested ==
    [][\A i \in 1..Len(Calls') : (Judged' /\ out' # out /\ IsDef(Calls'[i].s) /\ ~sh.auto) => (~req' \/ dflag')]_mvars

\* C02/C03: times are never negative
C03_NonNegative == Judged => \A i \in 1..Len(Calls) : Calls[i].tm >= 0 /\ Calls[i].stm >= 0
\* C02: a timed state is only ever called again while tm <= entry + duration
C02_WithinDuration ==
    \A i \in 1..Len(Calls) : (Judged /\ ~Calls[i].ic /\ exp[Calls[i].s] # Inf) => Calls[i].tm <= exp[Calls[i].s]
\* C02: a state entered by expiry of its predecessor starts at the predecessor's expiry instant
C02_SuccessorStartsAtExpiry ==
    [][Judged' /\ (\E i \in 1..Len(br') : br'[i] = "ExpireNext") /\ cur # None /\ Len(Calls') = 1
         => st0'[Calls'[1].s] = exp[cur]]_mvars
\* C02: when a continuously engaged machine starts over, the origin moves to the expiry instant
\*      and the first state is entered at machine time 0
C02_CycleRestartsAtExpiry ==
    [][Judged' /\ (\E i \in 1..Len(br') : br'[i] = "ExpireLastCycle") /\ cur # None
         => (start' = start + exp[cur] /\ Len(Calls') = 1 /\ Calls'[1].s = sh.first
             /\ Calls'[1].ic /\ st0'[sh.first] = 0)]_mvars
\* C04: stopped means reset
C04_StoppedMeansReset == (Judged /\ post /\ (cur = None \/ cur = sh.default)) => (~eng /\ ntcur = "")
\* C04: running means is_executing and current_state names the state that runs next
C04_RunningMeansExecuting ==
    (Judged /\ post /\ cur # None /\ cur # sh.default /\ ncalls > 0) => (eng /\ ntcur = cur)
\* C04: leaving "a regular state is current" for "none/default" always passes through done()
C04_StopCallsDone ==
    [][(Judged' /\ cur # None /\ cur # sh.default /\ eng /\ (cur' = None \/ cur' = sh.default)) => Len(Dones') > 0]_mvars
\* C04: the first iteration after a stop starts at tm = 0 with initial_call
C04_RestartAtZero ==
    [][(\E i \in 1..Len(br') : br'[i] = "Start") /\ Len(Calls') = 1 /\ Judged'
         => (Calls'[1].tm = 0 /\ Calls'[1].ic)]_mvars
\* C13: the autonomous variant never cycles, and is silent once it has stopped
C13_NeverCycles == (sh.auto /\ Judged) => ~Has("ExpireLastCycle")
C13_SilentWhenOff ==
    [][(Judged' /\ sh.auto /\ ~autoOn /\ AtTop /\ out' # out /\ ~(autoOn')) => Len(Calls') = 0]_mvars
\* C13: on_enable() leaves a stopped, clean machine with the latch on: the next on_iteration() starts at the first
\*      state with tm at zero (C04_RestartAtZero), whatever the previous period left behind
C13_EnableRestarts == (sh.auto /\ Judged /\ Has("AutoEnable")) => (autoOn /\ ~eng /\ (cur = None \/ cur = sh.default) /\ ntcur = "")
C13_LatchFollowsExecuting == (Judged /\ sh.auto /\ post /\ inAuto) => (autoOn = eng)
C13_OffMeansNotExecuting == (Judged /\ sh.auto /\ AtTop /\ ~autoOn) => ~eng
=============================================================================
