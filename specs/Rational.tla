---------------------------- MODULE Rational ----------------------------
(* Exact rationals <<num, den>> with den > 0, kept reduced (TLC integers are 32-bit). *)
EXTENDS Integers
Abs(x) == IF x < 0 THEN -x ELSE x
RECURSIVE GCD(_, _)
GCD(a, b) == IF b = 0 THEN a ELSE GCD(b, a % b)
Norm(n, d) == LET g == GCD(Abs(n), Abs(d))  s == IF d < 0 THEN -1 ELSE 1
              IN IF n = 0 THEN <<0, 1>> ELSE <<s * (n \div g), s * (d \div g)>>
R(n) == <<n, 1>>
Q(n, d) == Norm(n, d)
Mul(a, b) == LET x == Norm(a[1], b[2])  y == Norm(b[1], a[2]) IN Norm(x[1] * y[1], x[2] * y[2])
Inv(a) == Norm(a[2], a[1])
Div(a, b) == Mul(a, Inv(b))
Add(a, b) == LET g == GCD(a[2], b[2]) IN Norm(a[1] * (b[2] \div g) + b[1] * (a[2] \div g), (a[2] \div g) * b[2])
Neg(a) == <<-a[1], a[2]>>
Sub(a, b) == Add(a, Neg(b))
Less(a, b) == a[1] * b[2] < b[1] * a[2]
RMax(a, b) == IF Less(a, b) THEN b ELSE a
=============================================================================
