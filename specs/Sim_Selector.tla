---------------------------- MODULE Sim_Selector ----------------------------
EXTENDS MC_Selector, Json
CONSTANTS SimDepth
VARIABLES hist
SimInputs == Inputs \cup {[x |-> i, e |-> "periodic"] : i \in 1..4} \cup {[x |-> i, e |-> "start"] : i \in 1..3}
SimNext == \E ev \in SimInputs : EvNext(ev) /\ hist' = Append(hist, ev)
SimSpec == MCInit /\ hist = <<>> /\ [][SimNext]_<<slvars, hist>>
Emit == (Len(hist) = SimDepth) => PrintT("S|" \o ToJson([shape |-> [modes |-> sh.modes, defmode |-> sh.defmode], events |-> hist]))
SimStop == Len(hist) <= SimDepth
=============================================================================
