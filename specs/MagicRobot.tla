---------------------------- MODULE MagicRobot ----------------------------
(***************************************************************************)
(* magicbot.MagicRobot.startCompetition(): the mode-switching control      *)
(* loop, component lifecycle, fault policy (onException / FMS),            *)
(* will_reset_to resets, @feedback publication, loop timing on the         *)
(* NotifierDelay grid, and the part of AutonomousModeSelector.run() that   *)
(* the loop uses.                                                          *)
(*                                                                         *)
(* The robot thread is a program counter pc plus todo, the sequence of     *)
(* callback sites still to be invoked in the current phase.  One action    *)
(* per user callback (Callback), per blocking point (WaitEv / WakeEv) and  *)
(* per environment input while the thread is blocked (DsSet, FmsSet,       *)
(* Select, EndComp); the thread's own bookkeeping between callbacks is the *)
(* deterministic Silent action.                                            *)
(*                                                                         *)
(* Time is in microseconds of FPGA time.                                   *)
(*                                                                         *)
(* Dev: robotPeriodic_unguarded / iterfn_unguarded describe the pinned     *)
(* tree before the fix: commit; reset_skipped, execute_in_test,            *)
(* no_enable_on_teleop, feedback_skipped_in_disabled are mutations used to *)
(* show that the invariants have teeth.                                    *)
(***************************************************************************)
EXTENDS Integers, Sequences, FiniteSets, TLC

CONSTANTS Dev

None == "none"

VARIABLES
    sh,       \* layout, see below
    ds,       \* driver-station mode word as last polled by the robot thread (DriverStation.refreshData() at the top of
              \* every mode-loop iteration; the dispatcher in startCompetition() uses this cached word, it does not poll)
    dsNew,    \* the latest word the driver station has sent: "disabled" | "auto" | "teleop" | "test"
    chooserNew, \* what the dashboard's chooser widget has selected (a mode, or None for "None" / anything unknown)
    chooser,  \* ... as far as the robot's chooser object has taken notice: the widget's value is fetched by
              \* SmartDashboard.updateValues(), which the DEFAULT robotPeriodic() calls every iteration - a robot that
              \* overrides robotPeriodic() (sh.rp, the default) never looks and keeps the preselected mode
    fms,      \* FMS attached
    exit,     \* endCompetition() was called
    selStr,   \* SmartDashboard "Auto Selector" string
    pc,       \* boot | dispatch | enter | head | body | wait | leave | crashed | exited
    mode,     \* the mode function currently running
    ntMode,   \* /robot/mode
    todo,     \* remaining sites of the current phase
    fbleft,   \* feedback getters not yet called in the current feedback phase
    en,       \* per component: on_enable() was called and on_disable() not yet
    nsetup,   \* per component: number of setup() calls
    rv,       \* per component, per attribute: current value (will_reset_to and plain attributes)
    smReq,    \* per StateMachine component: engage() was called since its last execute()
    fbNT,     \* per feedback key: published value (None before the first publish)
    now,      \* FPGA time
    alarm,    \* next NotifierDelay alarm
    autoT0,   \* FPGA time at which the autonomous timer was started
    active,   \* active autonomous mode or None
    iterNo,   \* iterations run so far (all modes)
    mIter,    \* iterations run so far in the current run of the current mode
    nfault,   \* callbacks that raised so far
    swallowed \* callbacks that raised and were swallowed

rvars == <<sh, chooser, chooserNew, ds, dsNew, fms, exit, selStr, pc, mode, ntMode, todo, fbleft, en, nsetup, rv, smReq, fbNT, now, alarm,
           autoT0, active, iterNo, mIter, nfault, swallowed>>

(* layout:
   comps     : sequence of component names, declaration order (base robot classes first)
   has       : [comp -> [setup, on_enable, on_disable : BOOLEAN]]
   resets    : [comp -> [attr -> default]]       will_reset_to attributes (incl. inherited markers)
   plain     : [comp -> [attr -> initial]]       other attributes
   sm        : set of components that are magicbot.StateMachine objects (a first state "go" and a default state)
   feedbacks : set of [o |-> owner, key |-> key] (owner "robot" or a component)
   fbtypes   : [key -> return type hint of the getter: "int" "float" "bool" "str" "int[]" ... "struct" "none"]
   teleAuto  : use_teleop_in_autonomous
   modes     : set of autonomous mode names;  defmode : the DEFAULT one or None
   period    : control_loop_wait_time in microseconds                                   *)
Comps == sh.comps
CompSet == {Comps[i] : i \in 1..Len(Comps)}
P == sh.period

Site(k, o) == [k |-> k, o |-> o]
ForComps(k) ==
    LET idx == SelectSeq([i \in 1..Len(Comps) |-> i], LAMBDA i : k = "execute" \/ sh.has[Comps[i]][k])
    IN [j \in 1..Len(idx) |-> Site(k, Comps[idx[j]])]
AutoSite(k) == IF active # None THEN <<Site(k, active)>> ELSE <<>>

\* the feedback getters + robotPeriodic, run in every mode
DoPeriodics == <<Site("fbphase", "robot"), Site("robotPeriodic", "robot")>>
EnabledPeriodic == ForComps("execute") \o DoPeriodics \o <<Site("reset", "robot")>>

EnterSeq(m) ==
    CASE m = "disabled" -> ForComps("on_disable") \o <<Site("disabledInit", "robot")>>
      [] m = "teleop"   -> (IF "no_enable_on_teleop" \in Dev THEN <<>> ELSE ForComps("on_enable"))
                           \o <<Site("teleopInit", "robot")>>
      [] m = "auto"     -> ForComps("on_enable") \o <<Site("autonomousInit", "robot"), Site("autostart", "robot")>>
      [] m = "test"     -> <<Site("testInit", "robot")>>
IterSeq(m) ==
    CASE m = "disabled" -> <<Site("disabledPeriodic", "robot")>>
                           \o (IF "feedback_skipped_in_disabled" \in Dev THEN <<Site("robotPeriodic", "robot")>>
                               ELSE DoPeriodics)
      [] m = "teleop"   -> <<Site("teleopPeriodic", "robot")>> \o EnabledPeriodic
      [] m = "auto"     -> AutoSite("auto.on_iteration")
                           \o (IF sh.teleAuto THEN <<Site("teleopPeriodic", "robot")>> ELSE <<>>)
                           \o EnabledPeriodic
      [] m = "test"     -> <<Site("testPeriodic", "robot")>>
                           \o (IF "execute_in_test" \in Dev THEN ForComps("execute") ELSE <<>>) \o DoPeriodics
LeaveSeq(m) ==
    CASE m = "teleop" -> ForComps("on_disable")
      [] m = "auto"   -> AutoSite("auto.on_disable") \o <<Site("autostop", "robot")>> \o ForComps("on_disable")
      [] OTHER -> <<>>

Pseudo == {"fbphase", "reset", "autostart", "autostop"}
\* does the robot class override robotPeriodic()?  (layouts without the field do)
RP == IF "rp" \in DOMAIN sh THEN sh.rp ELSE TRUE

\* every user-callback site is guarded by onException(); the two that were not on the pinned tree
Guarded(s) ==
    /\ ~(s.k = "robotPeriodic" /\ "robotPeriodic_unguarded" \in Dev)
    /\ ~(s.k = "teleopPeriodic" /\ mode = "auto" /\ "iterfn_unguarded" \in Dev)
    /\ s.k # "setup"

Defaults == [c \in CompSet |-> sh.resets[c]]
Attrs(c) == DOMAIN sh.resets[c] \cup DOMAIN sh.plain[c]
InitVals == [c \in CompSet |-> [a \in Attrs(c) |-> IF a \in DOMAIN sh.resets[c] THEN sh.resets[c][a]
                                                   ELSE sh.plain[c][a]]]
ResetVals(v) == [c \in CompSet |-> [a \in Attrs(c) |-> IF a \in DOMAIN sh.resets[c]
                                                       /\ "reset_skipped" \notin Dev
                                                       THEN sh.resets[c][a] ELSE v[c][a]]]
FbKeys == {g.key : g \in sh.feedbacks}
\* a getter returns element (ret mod n) of its type's value domain (the driver owns the concrete values);
\* int-typed and un-hinted getters return ret itself
FbVal(k, ret) == CASE sh.fbtypes[k] \in {"int", "none"} -> ret [] sh.fbtypes[k] = "bool" -> ret % 2 [] OTHER -> ret % 3
\* the documented topic type for a return hint ("" = not specified: un-hinted getters are typed by inference)
FbTypeString(ty) ==
    CASE ty = "bool" -> "boolean" [] ty = "float" -> "double" [] ty = "str" -> "string" [] ty = "struct" -> "struct:Translation2d"
      [] ty = "bool[]" -> "boolean[]" [] ty = "float[]" -> "double[]" [] ty = "str[]" -> "string[]"
      [] ty = "struct[]" -> "struct:Translation2d[]" [] ty = "none" -> "" [] OTHER -> ty

Init(layout, f) ==
    /\ sh = layout /\ chooser = layout.defmode /\ chooserNew = layout.defmode
    /\ ds = "disabled" /\ dsNew = "disabled" /\ fms = f /\ exit = FALSE /\ selStr = ""
    /\ pc = "boot" /\ mode = None /\ ntMode = ""
    /\ todo = LET idx == SelectSeq([i \in 1..Len(layout.comps) |-> i],
                                   LAMBDA i : layout.has[layout.comps[i]]["setup"])
              IN [j \in 1..Len(idx) |-> Site("setup", layout.comps[idx[j]])]
    /\ fbleft = {}
    /\ en = [c \in {layout.comps[i] : i \in 1..Len(layout.comps)} |-> FALSE]
    /\ nsetup = [c \in {layout.comps[i] : i \in 1..Len(layout.comps)} |-> 0]
    /\ rv = [c \in {layout.comps[i] : i \in 1..Len(layout.comps)} |->
               [a \in DOMAIN layout.resets[c] \cup DOMAIN layout.plain[c] |->
                   IF a \in DOMAIN layout.resets[c] THEN layout.resets[c][a] ELSE layout.plain[c][a]]]
    /\ smReq = [c \in layout.sm |-> FALSE]
    /\ fbNT = [k \in {g.key : g \in layout.feedbacks} |-> -1]
    /\ now = 0 /\ alarm = 0 /\ autoT0 = 0 /\ active = None /\ iterNo = 0 /\ mIter = 0 /\ nfault = 0 /\ swallowed = 0

Max(a, b) == IF a > b THEN a ELSE b

(***************************************************************************)
(* Silent progress of the robot thread.  Exactly one disjunct is enabled   *)
(* whenever SilentEnabled holds; none consumes an event.                   *)
(***************************************************************************)
SilentEnabled ==
    \/ todo = <<>> /\ pc \in {"boot", "dispatch", "enter", "head", "leave"}
    \/ todo # <<>> /\ Head(todo).k \in {"reset", "autostart", "autostop"}
    \/ todo # <<>> /\ Head(todo).k = "fbphase" /\ fbleft = {}
    \/ todo # <<>> /\ Head(todo).k = "robotPeriodic" /\ ~RP

Silent ==
    \/ /\ todo # <<>> /\ Head(todo).k = "reset"
       /\ rv' = ResetVals(rv) /\ todo' = Tail(todo)
       /\ UNCHANGED <<sh, chooser, chooserNew, ds, dsNew, fms, exit, selStr, pc, mode, ntMode, fbleft, en, nsetup, smReq, fbNT, now, alarm,
                      autoT0, active, iterNo, mIter, nfault, swallowed>>
    \/ /\ todo # <<>> /\ Head(todo).k = "autostart"      \* timer start + _on_autonomous_enable()
       /\ LET a == IF selStr \in sh.modes THEN selStr ELSE chooser
          IN /\ active' = a /\ autoT0' = now
             /\ todo' = (IF a # None THEN <<Site("auto.on_enable", a)>> ELSE <<>>) \o Tail(todo)
       /\ UNCHANGED <<sh, chooser, chooserNew, ds, dsNew, fms, exit, selStr, pc, mode, ntMode, fbleft, en, nsetup, rv, smReq, fbNT, now, alarm,
                      iterNo, mIter, nfault, swallowed>>
    \/ /\ todo # <<>> /\ Head(todo).k = "autostop"       \* selector.disable(): active_mode := None
       /\ active' = None /\ todo' = Tail(todo)
       /\ UNCHANGED <<sh, chooser, chooserNew, ds, dsNew, fms, exit, selStr, pc, mode, ntMode, fbleft, en, nsetup, rv, smReq, fbNT, now, alarm,
                      autoT0, iterNo, mIter, nfault, swallowed>>
    \/ /\ todo # <<>> /\ Head(todo).k = "robotPeriodic" /\ ~RP      \* the default robotPeriodic(): updateValues()
       /\ chooser' = chooserNew /\ todo' = Tail(todo)
       /\ UNCHANGED <<sh, chooserNew, ds, dsNew, fms, exit, selStr, pc, mode, ntMode, fbleft, en, nsetup, rv, smReq, fbNT,
                      now, alarm, autoT0, active, iterNo, mIter, nfault, swallowed>>
    \/ /\ todo # <<>> /\ Head(todo).k = "fbphase" /\ fbleft = {}
       /\ todo' = Tail(todo)
       /\ UNCHANGED <<sh, chooser, chooserNew, ds, dsNew, fms, exit, selStr, pc, mode, ntMode, fbleft, en, nsetup, rv, smReq, fbNT, now, alarm,
                      autoT0, active, iterNo, mIter, nfault, swallowed>>
    \/ /\ todo = <<>> /\ pc = "boot" /\ pc' = "dispatch"
       /\ UNCHANGED <<sh, chooser, chooserNew, ds, dsNew, fms, exit, selStr, mode, ntMode, todo, fbleft, en, nsetup, rv, smReq, fbNT, now, alarm,
                      autoT0, active, iterNo, mIter, nfault, swallowed>>
    \/ /\ todo = <<>> /\ pc = "dispatch"
       /\ IF exit THEN pc' = "exited" /\ UNCHANGED <<mode, ntMode, todo>>
          ELSE mode' = ds /\ ntMode' = ds /\ todo' = EnterSeq(ds) /\ pc' = "enter"
       /\ mIter' = 0
       /\ UNCHANGED <<sh, chooser, chooserNew, ds, dsNew, fms, exit, selStr, fbleft, en, nsetup, rv, smReq, fbNT, now, alarm, autoT0, active,
                      iterNo, nfault, swallowed>>
    \/ /\ todo = <<>> /\ pc \in {"enter", "head"}
       \* top of the mode loop: unless endCompetition() was called, poll the driver station, then stay or leave
       /\ ds' = (IF exit THEN ds ELSE dsNew)
       /\ IF ~exit /\ dsNew = mode
          THEN /\ todo' = IterSeq(mode) /\ pc' = "body" /\ iterNo' = iterNo + 1 /\ mIter' = mIter + 1
               /\ fbleft' = sh.feedbacks
               /\ alarm' = IF pc = "enter" THEN now + P ELSE alarm     \* NotifierDelay created on entry
          ELSE /\ todo' = LeaveSeq(mode) /\ pc' = "leave" /\ UNCHANGED <<iterNo, mIter, fbleft, alarm>>
       /\ UNCHANGED <<sh, chooser, chooserNew, dsNew, fms, exit, selStr, mode, ntMode, en, nsetup, rv, smReq, fbNT, now, autoT0, active,
                      nfault, swallowed>>
    \/ /\ todo = <<>> /\ pc = "leave" /\ pc' = "dispatch"
       /\ UNCHANGED <<sh, chooser, chooserNew, ds, dsNew, fms, exit, selStr, mode, ntMode, todo, fbleft, en, nsetup, rv, smReq, fbNT, now, alarm,
                      autoT0, active, iterNo, mIter, nfault, swallowed>>

(***************************************************************************)
(* A user callback is invoked.  ev carries what the environment (the user  *)
(* code) does in it: raise or return, attribute writes, clock advance,     *)
(* and for feedback getters the returned value.                            *)
(***************************************************************************)
ApplyWrites(v, w) ==
    [c \in CompSet |-> [a \in Attrs(c) |->
        IF \E i \in 1..Len(w) : w[i].c = c /\ w[i].a = a
        THEN LET j == CHOOSE i \in 1..Len(w) : w[i].c = c /\ w[i].a = a /\ \A i2 \in (i + 1)..Len(w) : ~(w[i2].c = c /\ w[i2].a = a)
             IN w[j].v
        ELSE v[c][a]]]

IsFb(ev) == ev.k = "feedback"
\* which state function an execute() of component c runs: "" for ordinary components
SmState(c) == IF c \in sh.sm THEN (IF smReq[c] THEN "go" ELSE "idle") ELSE ""
CbEnabled(ev) ==
    /\ todo # <<>> /\ pc \notin {"crashed", "exited", "wait"}
    /\ IF Head(todo).k = "fbphase"
       THEN IsFb(ev) /\ [o |-> ev.o, key |-> ev.key] \in fbleft
       ELSE ~IsFb(ev) /\ Head(todo) = Site(ev.k, ev.o) /\ ~(ev.k = "robotPeriodic" /\ ~RP)

Callback(ev) ==
    LET s == Site(ev.k, ev.o)
        fatal == ev.raise /\ ~(fms /\ Guarded(s))
    IN
    /\ CbEnabled(ev)
    /\ en' = CASE ev.k = "on_enable"  -> [en EXCEPT ![ev.o] = TRUE]
               [] ev.k = "on_disable" -> [en EXCEPT ![ev.o] = FALSE]
               [] OTHER -> en
    /\ nsetup' = IF ev.k = "setup" THEN [nsetup EXCEPT ![ev.o] = @ + 1] ELSE nsetup
    /\ rv' = ApplyWrites(rv, ev.w)
    \* a StateMachine component runs its first state iff engage() was called since its previous execute(); the
    \* request is consumed by that execute().  Its on_disable() goes through done(), which forgets the state the
    \* pending engage() had selected: the next execute() then runs the default state (MagicSM: DefaultEnter)
    \* (as implemented: a state function that raises leaves execute() before the request flag is cleared, so under
    \*  the FMS the request - also one made from inside that very call - is still pending in the next iteration)
    /\ smReq' = [c \in sh.sm |-> IF ev.k = "execute" /\ ev.o = c
                                  THEN ev.raise /\ (smReq[c] \/ \E i \in 1..Len(ev.eng) : ev.eng[i] = c)
                                  ELSE IF ev.k = "on_disable" /\ ev.o = c /\ ~ev.raise THEN FALSE
                                  ELSE IF \E i \in 1..Len(ev.eng) : ev.eng[i] = c THEN TRUE ELSE smReq[c]]
    /\ now' = now + ev.adv
    /\ fbNT' = IF IsFb(ev) /\ ~ev.raise THEN [fbNT EXCEPT ![ev.key] = FbVal(ev.key, ev.ret)] ELSE fbNT
    /\ nfault' = nfault + (IF ev.raise THEN 1 ELSE 0)
    /\ swallowed' = swallowed + (IF ev.raise /\ ~fatal THEN 1 ELSE 0)
    /\ IF fatal
       THEN pc' = "crashed" /\ todo' = <<>> /\ fbleft' = {}
       ELSE /\ pc' = pc
            /\ IF IsFb(ev) THEN fbleft' = fbleft \ {[o |-> ev.o, key |-> ev.key]} /\ todo' = todo
               ELSE todo' = Tail(todo) /\ fbleft' = fbleft
    \* while the callback runs the driver station may send a new word (ev.dsw): it is seen at the next poll
    /\ dsNew' = (IF "dsw" \in DOMAIN ev /\ ev.dsw # "" THEN ev.dsw ELSE dsNew)
    \* ... and the callback itself (or another thread meanwhile) may call endCompetition() (ev.endc): the iteration is
    \* finished, the loop is left at its next head
    /\ exit' = (exit \/ ("endc" \in DOMAIN ev /\ ev.endc))
    /\ UNCHANGED <<sh, chooser, chooserNew, ds, fms, selStr, mode, ntMode, alarm, autoT0, active, iterNo, mIter>>

WaitEv ==       \* the thread blocks in NotifierDelay.wait()
    /\ pc = "body" /\ todo = <<>> /\ pc' = "wait"
    /\ UNCHANGED <<sh, chooser, chooserNew, ds, dsNew, fms, exit, selStr, mode, ntMode, todo, fbleft, en, nsetup, rv, smReq, fbNT, now, alarm,
                   autoT0, active, iterNo, mIter, nfault, swallowed>>
WakeEv ==       \* ... and returns at the alarm, or at once when the alarm is already past
    /\ pc = "wait" /\ pc' = "head"
    /\ now' = Max(now, alarm) /\ alarm' = alarm + P
    /\ UNCHANGED <<sh, chooser, chooserNew, ds, dsNew, fms, exit, selStr, mode, ntMode, todo, fbleft, en, nsetup, rv, smReq, fbNT, autoT0, active,
                   iterNo, mIter, nfault, swallowed>>
\* environment inputs, delivered while the robot thread is blocked
DsSet(m) ==
    /\ pc = "wait" /\ dsNew' = m
    /\ UNCHANGED <<sh, chooser, chooserNew, ds, fms, exit, selStr, pc, mode, ntMode, todo, fbleft, en, nsetup, rv, smReq, fbNT, now, alarm, autoT0,
                   active, iterNo, mIter, nfault, swallowed>>
FmsSet(b) ==
    /\ pc = "wait" /\ fms' = b
    /\ UNCHANGED <<sh, chooser, chooserNew, ds, dsNew, exit, selStr, pc, mode, ntMode, todo, fbleft, en, nsetup, rv, smReq, fbNT, now, alarm, autoT0,
                   active, iterNo, mIter, nfault, swallowed>>
Choose(m) ==       \* the chooser widget on the dashboard
    /\ pc = "wait" /\ chooserNew' = (IF m \in sh.modes THEN m ELSE None)
    /\ UNCHANGED <<sh, chooser, ds, dsNew, fms, exit, selStr, pc, mode, ntMode, todo, fbleft, en, nsetup, rv, smReq, fbNT, now,
                   alarm, autoT0, active, iterNo, mIter, nfault, swallowed>>
Select(s) ==
    /\ pc = "wait" /\ selStr' = s
    /\ UNCHANGED <<sh, chooser, chooserNew, ds, dsNew, fms, exit, pc, mode, ntMode, todo, fbleft, en, nsetup, rv, smReq, fbNT, now, alarm, autoT0,
                   active, iterNo, mIter, nfault, swallowed>>
EndComp ==
    /\ pc = "wait" /\ exit' = TRUE
    /\ UNCHANGED <<sh, chooser, chooserNew, ds, dsNew, fms, selStr, pc, mode, ntMode, todo, fbleft, en, nsetup, rv, smReq, fbNT, now, alarm, autoT0,
                   active, iterNo, mIter, nfault, swallowed>>
ExitEv(crashed) ==   \* startCompetition() returned / raised
    /\ pc = (IF crashed THEN "crashed" ELSE "exited")
    /\ UNCHANGED rvars

EvEnabled(ev) ==
    CASE ev.e = "cb"   -> CbEnabled(ev)
      [] ev.e = "wait" -> pc = "body" /\ todo = <<>>
      [] ev.e \in {"wake", "ds", "fms", "sel", "end", "choose"} -> pc = "wait"
      [] ev.e = "exit" -> pc = (IF ev.crashed THEN "crashed" ELSE "exited")
      [] OTHER -> FALSE

EvNext(ev) ==
    CASE ev.e = "cb"   -> Callback(ev)
      [] ev.e = "wait" -> WaitEv
      [] ev.e = "wake" -> WakeEv
      [] ev.e = "ds"   -> DsSet(ev.m)
      [] ev.e = "choose" -> Choose(ev.m)
      [] ev.e = "fms"  -> FmsSet(ev.b)
      [] ev.e = "sel"  -> Select(ev.s)
      [] ev.e = "end"  -> EndComp
      [] ev.e = "exit" -> ExitEv(ev.crashed)

(***************************************************************************)
(* Properties                                                              *)
(***************************************************************************)
NextSite == IF todo # <<>> THEN Head(todo) ELSE Site("none", "none")
InIter == pc = "body"

\* C05: no component runs in disabled or test mode
C05_NoExecuteInDisabledTest ==
    (NextSite.k = "execute") => mode \in {"auto", "teleop"}
\* C05: /robot/mode names the mode being run
C05_ModeTopic == (pc \in {"enter", "head", "body", "wait", "leave"}) => ntMode = mode
\* C05: the order inside an iteration is the IterSeq order: todo is always a suffix of the iteration
\*      sequence of the current mode (structural; the order itself is what conformance checks)
IsSuffix(s, t) == Len(s) <= Len(t) /\ s = SubSeq(t, Len(t) - Len(s) + 1, Len(t))
C05_TodoIsSuffix == (pc = "body") => IsSuffix(todo, IterSeq(mode))
\* C05/C16: alarms stay on the grid of the mode's NotifierDelay; an iteration never starts before its slot
C05_OnePerPeriod ==
    [][(pc = "wait" /\ pc' = "head") => (now' >= alarm /\ alarm' = alarm + P)]_rvars

\* C06: execute() only inside the on_enable / on_disable bracket
C06_ExecuteOnlyWhenEnabled ==
    (NextSite.k = "execute" /\ sh.has[NextSite.o]["on_enable"]) => en[NextSite.o]
\* C06: setup exactly once, before anything else
C06_SetupOnce == (pc # "boot" /\ pc # "crashed") => \A c \in CompSet : nsetup[c] = (IF sh.has[c]["setup"] THEN 1 ELSE 0)
C06_SetupFirst == (NextSite.k \notin {"setup", "none"}) => pc # "boot"
\* C06: when the robot is in disabled mode (after its entry sequence) no component is enabled
C06_DisabledMeansDisabled ==
    (mode = "disabled" /\ pc \in {"head", "body", "wait"}) => \A c \in CompSet : (sh.has[c]["on_disable"] => ~en[c])
\* C06: the init hook / auto on_enable run with every component enabled
C06_EnableBeforeInit ==
    (NextSite.k \in {"teleopInit", "autonomousInit", "auto.on_enable"}) =>
        \A c \in CompSet : (sh.has[c]["on_enable"] => en[c])

\* C07: with the FMS attached nothing a user callback raises stops the robot
C07_FmsNeverCrashes == fms => pc # "crashed"
\* C07: without it every fault is fatal
C07_UnswallowedIsFatal == (nfault > swallowed) => pc = "crashed"
C07_SwallowedOnlyUnderFms == [][swallowed' > swallowed => fms]_rvars

\* C11: every feedback getter has been called (exactly once: fbleft is a set) when an iteration ends
C11_AllPublished == (pc = "body" /\ todo = <<>>) => fbleft = {}
C11_EveryMode == (pc = "wait") => fbleft = {}

\* C10: at the start of every iteration all will_reset_to attributes hold their defaults
C10_ResetAtIterationStart ==
    (pc = "body" /\ mode \in {"auto", "teleop"} /\ todo = IterSeq(mode) /\ fbleft = sh.feedbacks /\ mIter > 1) =>
        \A c \in CompSet : \A a \in DOMAIN sh.resets[c] : rv[c][a] = sh.resets[c][a]
\* C10: the reset never touches other attributes
C10_PlainUntouched ==
    [][(todo # <<>> /\ Head(todo).k = "reset" /\ todo' = Tail(todo)) =>
         \A c \in CompSet : \A a \in DOMAIN sh.plain[c] : rv'[c][a] = rv[c][a]]_rvars
=============================================================================
