---------------------------- MODULE MC_LoopTimer ----------------------------
EXTENDS LoopTimer, TLC
CONSTANTS Steps, MaxNow, MaxLevel
Inputs == {[e |-> "tick", d |-> d] : d \in Steps} \cup {[e |-> "new"], [e |-> "reset"]}
          \cup {[e |-> "measure", tie |-> t] : t \in BOOLEAN}
MCNext == \E ev \in Inputs : EvNext(ev)
MCSpec == Init /\ [][MCNext]_lvars
Bound == now <= MaxNow /\ TLCGet("level") <= MaxLevel
EnabledAgrees == \A ev \in Inputs : EvEnabled(ev) = ENABLED EvNext(ev)
Probe_TwoReports == ~(reports >= 2)
Probe_BackToBack == ~(rep.r /\ rep.loops = 1 /\ reports >= 2)
Probe_Tie == ~(made /\ now - tstart = Second /\ loops >= 1)
=============================================================================
