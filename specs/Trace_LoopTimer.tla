---------------------------- MODULE Trace_LoopTimer ----------------------------
EXTENDS LoopTimer, TraceKit
CONSTANTS Prop
tvars == <<lvars, kvars>>
TInit == KInit /\ Init
Diffs(ev, o) ==
    IF ev.e # "measure" THEN (IF o.r THEN {"unexpected_report"} ELSE {})
    ELSE (IF o.r # rep'.r THEN {"report"} ELSE {})
         \cup (IF o.r /\ rep'.r /\ o.loops # rep'.loops THEN {"loops"} ELSE {})
         \cup (IF o.r /\ rep'.r /\ o.mn # rep'.mn THEN {"min"} ELSE {})
         \cup (IF o.r /\ rep'.r /\ o.mx # rep'.mx THEN {"max"} ELSE {})
         \cup (IF o.r /\ rep'.r /\ o.period # rep'.period THEN {"period"} ELSE {})
         \cup (IF o.r /\ rep'.r /\ o.avgn # rep'.period THEN {"average"} ELSE {})
         \cup (IF o.err THEN {"off_grid_or_malformed"} ELSE {})
TStep ==
    /\ vkind = "" /\ l <= Len(Tr.steps) /\ l' = l + 1 /\ UNCHANGED tid
    /\ LET ev == Tr.steps[l].in  o == Tr.steps[l].out IN
       IF ev.e = "raised"
       THEN /\ UNCHANGED lvars /\ UNCHANGED seen
            /\ Verdict("MISMATCH", [v |-> "MISMATCH", tid |-> Tr.id, l |-> l, clauses |-> {"raised"}, br |-> <<>>,
                                    exp |-> [raised |-> FALSE], obs |-> o])
       ELSE IF ~EvEnabled(ev)
       THEN UNCHANGED lvars /\ UNCHANGED seen /\ Verdict("STUCK", [v |-> "STUCK", tid |-> Tr.id, l |-> l, ev |-> ev])
       ELSE /\ EvNext(ev)
            /\ seen' = seen \cup {ev.e} \cup (IF rep'.r THEN {"report"} ELSE {})
                            \cup (IF rep'.r /\ reports' >= 2 /\ rep'.loops = 1 THEN {"back_to_back"} ELSE {})
                            \cup (IF ev.e = "measure" /\ now - tstart = Second THEN {"tie"} ELSE {})
                            \cup (IF ev.e = "reset" /\ loops > 0 THEN {"reset_mid_window"} ELSE {})
            /\ LET d == Diffs(ev, o) IN
               IF d # {} THEN Verdict("MISMATCH", [v |-> "MISMATCH", tid |-> Tr.id, l |-> l, clauses |-> d, br |-> <<>>,
                                                   exp |-> rep', obs |-> o])
               ELSE IF l = Len(Tr.steps) THEN Verdict("ACCEPT", [v |-> "ACCEPT", tid |-> Tr.id, n |-> l, seen |-> seen'])
               ELSE NoVerdict
TSpec == TInit /\ [][TStep]_tvars
=============================================================================
