---------------------------- MODULE Sim_Tunable ----------------------------
EXTENDS MC_Tunable, Json
CONSTANTS SimDepth
VARIABLES hist
SimNext == \E ev \in Inputs : EvNext(ev) /\ hist' = Append(hist, ev)
SimSpec == MCInit /\ hist = <<>> /\ [][SimNext]_<<tuvars, hist>>
Emit == (Len(hist) = SimDepth) => PrintT("S|" \o ToJson([shape |-> sh, events |-> hist]))
SimStop == Len(hist) <= SimDepth
=============================================================================
