---------------------------- MODULE Sim_Controls ----------------------------
EXTENDS MC_Controls, Json
CONSTANTS SimDepth
VARIABLES hist
SimNext == \E ev \in Inputs : EvNext(ev) /\ hist' = Append(hist, ev)
SimSpec == MCInit /\ hist = <<>> /\ [][SimNext]_<<cvars, hist>>
Emit == (Len(hist) = SimDepth) => PrintT("S|" \o ToJson([shape |-> sh, events |-> hist]))
SimStop == Len(hist) <= SimDepth
=============================================================================
