---------------------------- MODULE MC_NotifierDelay ----------------------------
EXTENDS NotifierDelay
CONSTANTS Periods, Bodies, MaxWaits
Inputs == {[e |-> "new", p |-> p] : p \in Periods \cup {999}} \cup {[e |-> "body", b |-> b] : b \in Bodies}
          \cup {[e |-> "wait"], [e |-> "free"], [e |-> "enter"]}
MCNext == \E ev \in Inputs : EvNext(ev)
MCSpec == Init /\ [][MCNext]_nvars
Bound == k <= MaxWaits /\ now <= (MaxWaits + 3) * 5000 /\ TLCGet("level") <= 3 * MaxWaits + 4
EnabledAgrees == \A ev \in Inputs : EvEnabled(ev) = ENABLED EvNext(ev)
Probe_Overrun == ~(made /\ k >= 1 /\ lastRet > t0 + k * P)
Probe_CatchUp == ~(made /\ k >= 3 /\ lastRet = t0 + k * P /\ now = lastRet)
Probe_Freed == ~(made /\ freed /\ k >= 1)
=============================================================================
