---------------------------- MODULE Inject ----------------------------
(***************************************************************************)
(* magicbot variable injection at robot start-up (C08).                    *)
(* A behaviour is one robot definition (a "case"); TLC enumerates the      *)
(* bounded universe and prints each case with the outcome the property     *)
(* requires; every case becomes a generated MagicRobot whose robotInit()   *)
(* is run.                                                                 *)
(*                                                                         *)
(* case = [order  : sequence of component names in declaration order,      *)
(*         robot  : [attribute name -> value kind or "missing"],           *)
(*         clslvl : robot attributes are class-level (else createObjects), *)
(*         shadow : the robot class ALSO has class-level attributes of the  *)
(*                  same names holding other objects; the instance's win,   *)
(*         comp   : [component -> [attrs : seq of [n, ann, preset],        *)
(*                                 ctor  : seq of [n, ann]]],              *)
(*         mode   : seq of [n, ann]  (annotated attributes of one          *)
(*                  autonomous mode; <<>> = no autonomous mode)]           *)
(* Value kinds: "A" "B" (B is a subclass of A) "C" instances, "zero" (0),  *)
(* "int7", "empty" (''), "none" (None), "list" ([1, 2]), "true"/"false",   *)
(* "func" (a plain function object; at class level it is a method of the   *)
(* robot, which is not an injectable object).                              *)
(* Annotations: "A" "B" "C" "int" "str" "bool" "listint" (the generic      *)
(* alias list[int]), "callable" (typing.Callable[[], int]) and "K1"/"K2",  *)
(* the classes of components c1/c2.                                        *)
(* same: c1 and c2 are two instances of ONE class whose constructor        *)
(* takes 'own: bool' (filled per component from c1_own / c2_own) and       *)
(* presets the annotated attribute x only when own is true - what is       *)
(* requested is decided per instance, not per class.                       *)
(***************************************************************************)
EXTENDS Integers, Sequences, FiniteSets, TLC, Json

CONSTANTS AttrOpts, CtorOpts, RobotX, RobotCX, ModeOpts, ClsLvl
Orders == {<<"c1", "c2">>, <<"c2", "c1">>}

Comps == {"c1", "c2"}
Peer(c) == IF c = "c1" THEN "c2" ELSE "c1"
ClassOf(c) == IF c = "c1" THEN "K1" ELSE "K2"

Inst(v, ann) ==      \* isinstance(value, annotated type)
    CASE ann = "A" -> v \in {"A", "B"}
      [] ann = "B" -> v = "B"
      [] ann = "C" -> v = "C"
      [] ann = "int" -> v \in {"zero", "int7"}
      [] ann = "str" -> v = "empty"
      [] ann = "bool" -> v \in {"true", "false"}
      [] ann = "callable" -> v = "func"
      [] ann = "listint" -> v = "list"
      [] ann = "K1" -> v = "comp.c1"
      [] ann = "K2" -> v = "comp.c2"
      [] OTHER -> FALSE

Attr(n, ann, preset) == [n |-> n, ann |-> ann, preset |-> preset]
\* named option sets, instantiated per component (the attribute "peer" is named after the other component)
AttrsOf(opt, c) ==
    CASE opt = "none" -> <<>>
      [] opt = "xA" -> <<Attr("x", "A", "no")>>
      [] opt = "xB" -> <<Attr("x", "B", "no")>>
      [] opt = "xInt" -> <<Attr("x", "int", "no")>>
      [] opt = "xStr" -> <<Attr("x", "str", "no")>>
      [] opt = "xList" -> <<Attr("x", "listint", "no")>>
      [] opt = "xCall" -> <<Attr("x", "callable", "no")>>
      [] opt = "yA" -> <<Attr("y", "A", "no")>>
      [] opt = "privA" -> <<Attr("_p", "A", "no")>>
      [] opt = "xA_class" -> <<Attr("x", "A", "class")>>
      [] opt = "xA_init" -> <<Attr("x", "A", "init")>>
      [] opt = "peer" -> <<Attr(Peer(c), ClassOf(Peer(c)), "no")>>
      [] opt = "xA_peer" -> <<Attr("x", "A", "no"), Attr(Peer(c), ClassOf(Peer(c)), "no")>>
      [] opt = "inhA" -> <<Attr("x", "A", "inherited")>>        \* annotation on a base class of the component
      [] opt = "xA_base" -> <<Attr("x", "A", "baseclass")>>    \* value preset on a base class of the component
CtorOf(opt, c) ==
    CASE opt = "none" -> <<>>
      [] opt = "xA" -> <<[n |-> "x", ann |-> "A"]>>
      [] opt = "xInt" -> <<[n |-> "x", ann |-> "int"]>>
      [] opt = "peer" -> <<[n |-> Peer(c), ann |-> ClassOf(Peer(c))]>>
      [] opt = "priv" -> <<[n |-> "_p", ann |-> "A"]>>

SameComp(own, ann) == [attrs |-> <<Attr("x", ann, IF own = "true" THEN "init" ELSE "no")>>,
                       ctor |-> <<[n |-> "own", ann |-> "bool"]>>]
VARIABLES case
RobotMaps == {[x |-> a, c1_x |-> b, c2_x |-> c] : a \in RobotX, b \in RobotCX, c \in RobotCX}
One(c) == {[attrs |-> AttrsOf(a, c), ctor |-> CtorOf(k, c)] : a \in AttrOpts, k \in CtorOpts}
Cases ==
    {[order |-> o, robot |-> r, clslvl |-> cl, shadow |-> FALSE, comp |-> [c1 |-> k1, c2 |-> k2], mode |-> <<>>, same |-> FALSE]
        : o \in {x \in Orders : Len(x) = 2}, r \in RobotMaps, cl \in {FALSE}, k1 \in One("c1"), k2 \in One("c2")}
    \cup
    \* two instances of one class, differing in what their constructor presets
    {[order |-> o, robot |-> r @@ [c1_own |-> o1, c2_own |-> o2], clslvl |-> FALSE, shadow |-> FALSE,
      comp |-> [c1 |-> SameComp(o1, an), c2 |-> SameComp(o2, an)], mode |-> <<>>, same |-> TRUE]
        : o \in {x \in Orders : Len(x) = 2}, r \in RobotMaps, o1 \in {"true", "false"}, o2 \in {"true", "false"},
          an \in {"A", "int"}}
    \* (am_y: an object stored under '<mode name>_y' - the prefix of an autonomous mode is its MODE_NAME, "am")
    \cup {[order |-> <<"c1">>, robot |-> r @@ [am_y |-> ay], clslvl |-> cl.c, shadow |-> cl.s,
           comp |-> [c1 |-> k1, c2 |-> [attrs |-> <<>>, ctor |-> <<>>]], mode |-> m, same |-> FALSE]
        : r \in RobotMaps, ay \in {"missing", "A"}, cl \in {[c |-> c, s |-> sdw] : c \in ClsLvl, sdw \in BOOLEAN} \ {[c |-> TRUE, s |-> TRUE]},
          k1 \in One("c1"),
          m \in {CASE mo = "none" -> <<>> [] mo = "xA" -> <<Attr("x", "A", "no")>> [] mo = "c1" -> <<Attr("c1", "K1", "no")>>
                   [] mo = "yA" -> <<Attr("y", "A", "no")>> : mo \in ModeOpts}}
    \* a robot without components: its autonomous modes are injected (and checked) all the same
    \cup {[order |-> <<>>, robot |-> r @@ [am_y |-> ay], clslvl |-> c, shadow |-> FALSE,
           comp |-> [c1 |-> [attrs |-> <<>>, ctor |-> <<>>], c2 |-> [attrs |-> <<>>, ctor |-> <<>>]], mode |-> m, same |-> FALSE]
        : r \in RobotMaps, ay \in {"missing", "A"}, c \in ClsLvl,
          m \in {CASE mo = "none" -> <<>> [] mo = "xA" -> <<Attr("x", "A", "no")>> [] mo = "c1" -> <<Attr("c1", "K1", "no")>>
                   [] mo = "yA" -> <<Attr("y", "A", "no")>> : mo \in ModeOpts}}
Init == case \in Cases
Spec == Init /\ [][UNCHANGED case]_case

(* ---- what start-up must do ---- *)
InOrder(c) == \E i \in 1..Len(case.order) : case.order[i] = c
Pos(c) == CHOOSE i \in 1..Len(case.order) : case.order[i] = c
\* the object stored on the robot under name n, as seen by a constructor of the component at position p
\* (robot attributes + earlier components) or by attribute injection (p = 99: all components)
Stored(n, p) ==
    IF n \in Comps /\ InOrder(n) /\ Pos(n) < p THEN "comp." \o n
    ELSE IF n \in DOMAIN case.robot /\ case.robot[n] \notin {"missing", "none"}
            /\ ~(case.robot[n] = "func" /\ case.clslvl)        \* a function on the robot CLASS is a method, not an object
         THEN "robot." \o n
    ELSE "absent"
KindOf(obj) == IF obj \in {"comp.c1", "comp.c2"} THEN obj ELSE case.robot[SubSeq(obj, 7, Len(obj))]
\* name first, then '<component>_<name>'
Lookup(owner, n, p) == IF Stored(n, p) # "absent" THEN Stored(n, p) ELSE Stored(owner \o "_" \o n, p)
Satisfied(owner, req, p) == Lookup(owner, req.n, p) # "absent" /\ Inst(KindOf(Lookup(owner, req.n, p)), req.ann)

CtorFailures == {<<c, i>> \in Comps \X (1..2) :
                    InOrder(c) /\ i <= Len(case.comp[c].ctor)
                    /\ (case.comp[c].ctor[i].n = "_p" \/ ~Satisfied(c, case.comp[c].ctor[i], Pos(c)))}
Requested(a) == a.n # "_p" /\ a.preset \in {"no", "inherited"}
AttrFailures == {<<c, i>> \in Comps \X (1..2) :
                    InOrder(c) /\ i <= Len(case.comp[c].attrs) /\ Requested(case.comp[c].attrs[i])
                    /\ ~Satisfied(c, case.comp[c].attrs[i], 99)}
ModeFailures == {i \in 1..Len(case.mode) : ~Satisfied("am", case.mode[i], 99)}
Fails == CtorFailures # {} \/ AttrFailures # {} \/ ModeFailures # {}

Binding(owner, a) == IF a.n = "_p" THEN "unset" ELSE IF a.preset \in {"class", "init", "baseclass"} THEN "preset" ELSE Lookup(owner, a.n, 99)
Expected ==
    IF Fails THEN [ok |-> FALSE]
    ELSE [ok |-> TRUE,
          attrs |-> [c \in {x \in Comps : InOrder(x)} |-> [i \in 1..Len(case.comp[c].attrs) |-> Binding(c, case.comp[c].attrs[i])]],
          ctor |-> [c \in {x \in Comps : InOrder(x)} |-> [i \in 1..Len(case.comp[c].ctor) |-> Lookup(c, case.comp[c].ctor[i].n, Pos(c))]],
          mode |-> [i \in 1..Len(case.mode) |-> Lookup("am", case.mode[i].n, 99)]]

(* C08 as laws over the universe *)
\* the name beats the prefixed name; a falsy value (0, '') is delivered, None counts as absent
MethodX == case.robot.x = "func" /\ case.clslvl       \* x is a method of the robot class: no object is stored under x
C08_NameFirst ==
    \A c \in Comps : \A i \in 1..Len(case.comp[c].attrs) :
        (InOrder(c) /\ case.comp[c].attrs[i].n = "x" /\ case.robot.x \notin {"missing", "none"} /\ ~MethodX)
            => Lookup(c, "x", 99) = "robot.x"
C08_PrefixSecond ==
    \A c \in Comps : \A i \in 1..Len(case.comp[c].attrs) :
        (InOrder(c) /\ case.comp[c].attrs[i].n = "x" /\ (case.robot.x \in {"missing", "none"} \/ MethodX)
           /\ case.robot[c \o "_x"] \notin {"missing", "none"})
            => Lookup(c, "x", 99) = "robot." \o c \o "_x"
\* constructors only see earlier-declared components
C08_CtorSeesEarlierOnly ==
    \A c \in Comps : \A i \in 1..Len(case.comp[c].ctor) :
        (InOrder(c) /\ case.comp[c].ctor[i].n \in Comps /\ Len(case.order) = 2 /\ Pos(case.comp[c].ctor[i].n) > Pos(c))
            => <<c, i>> \in CtorFailures

Emit == PrintT("S|" \o ToJson([case |-> case, exp |-> Expected]))
=============================================================================
