---------------------------- MODULE MC_Tunable ----------------------------
EXTENDS Tunable
CONSTANTS ShapeNames, MaxLevel
Tu(a, s, ty, wd) == [attr |-> a, sub |-> s, type |-> ty, wd |-> wd]
In(k, n) == [kind |-> k, name |-> n]
U1 == [tunables |-> <<Tu("x", "", "int", TRUE), Tu("y", "sub", "str", FALSE)>>,
       insts |-> <<In("components", "n1"), In("components", "n2"), In("autonomous", "n1")>>]
U2 == [tunables |-> <<Tu("x", "", "bytes", FALSE), Tu("x2", "", "bool", TRUE)>>,
       insts |-> <<In("components", "a"), In("robot", "robot")>>]
U3 == [tunables |-> <<Tu("a", "", "float", FALSE), Tu("b", "a", "int[]", TRUE)>>,
       insts |-> <<In("components", "a"), In("autonomous", "a"), In("components", "aa")>>]
ShapeOf(n) == CASE n = "U1" -> U1 [] n = "U2" -> U2 [] n = "U3" -> U3
MCInit == \E n \in ShapeNames : Init(ShapeOf(n))
Inputs == {[e |-> "setup", i |-> i] : i \in 1..NI}
          \cup {[e |-> k, i |-> i, t |-> t, vi |-> v] : k \in {"pyw", "ntw"}, i \in 1..NI, t \in 1..NTn, v \in 1..2}
          \cup {[e |-> k, i |-> i, t |-> t] : k \in {"pyr", "ntr"}, i \in 1..NI, t \in 1..NTn}
MCNext == \E ev \in Inputs : EvNext(ev)
MCSpec == MCInit /\ [][MCNext]_tuvars
Bound == TLCGet("level") <= MaxLevel
EnabledAgrees == \A ev \in Inputs : EvEnabled(ev) = ENABLED EvNext(ev)
Probe_Preserved == ~(\E i \in 1..NI : ready[i] /\ \E t \in 1..NTn : ~sh.tunables[t].wd /\ nt[Path(i, t)].vi > 0)
Probe_Overwritten == ~(ret.k = "setup" /\ \E i \in 1..NI : ready[i] /\ \E t \in 1..NTn : sh.tunables[t].wd /\ nt[Path(i, t)].vi = 0)
=============================================================================
