---------------------------- MODULE Crc7Lin ----------------------------
(* XOR-linearity of the table-driven checksum over equal-length messages, by exploration: three     *)
(* machines fed m1, m2 and m1 XOR m2.  (m2's bytes range over a basis plus 0 and 255.)              *)
EXTENDS Crc7
VARIABLES c1, c2, c12
Basis == {0, 1, 2, 4, 8, 16, 32, 64, 128, 255}
LInit == c1 = 0 /\ c2 = 0 /\ c12 = 0 /\ ct = 0 /\ cb = 0
LNext == \E b1 \in 0..255 : \E b2 \in Basis :
            c1' = T(b1 ^^ c1) /\ c2' = T(b2 ^^ c2) /\ c12' = T((b1 ^^ b2) ^^ c12) /\ UNCHANGED <<ct, cb>>
LSpec == LInit /\ [][LNext]_<<c1, c2, c12, ct, cb>>
Linear == c12 = c1 ^^ c2
=============================================================================
