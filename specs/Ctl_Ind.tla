---------------------------- MODULE Ctl_Ind ----------------------------
(***************************************************************************)
(* Unbounded argument for the rate-limit clauses of C19 at the model       *)
(* level, for Apalache.  The four machines of Controls.tla are restated    *)
(* with typed integer / boolean variables (Controls.tla keeps untyped      *)
(* records for the acceptor) and the spacing guarantees are shown to be    *)
(* INDUCTIVE: for ANY period >= 1, any clock advance, any sample / record  *)
(* sequence of any length:                                                 *)
(*   apalache-mc check --init=Init    --inv=IndInv --length=0 Ctl_Ind.tla  *)
(*   apalache-mc check --init=IndInit --inv=IndInv --length=1 Ctl_Ind.tla  *)
(* gapX is the distance between the last two firings of X (a history       *)
(* variable); IndInv implies Spacing.                                      *)
(* Time: ticks for the button helpers, microseconds for the watchdog.      *)
(***************************************************************************)
EXTENDS Integers

VARIABLES
    \* @type: Int;
    now,
    \* @type: Int;
    P,            \* debounce / filter period (never changes)
    \* ---- ButtonDebouncer ----
    \* @type: Int;
    bdLatest,
    \* @type: Int;
    trues,
    \* @type: Int;
    gapBd,
    \* ---- PeriodicFilter ----
    \* @type: Int;
    pfLast,
    \* @type: Int;
    lastLow,
    \* @type: Int;
    lows,
    \* @type: Int;
    gapPf,
    \* ---- SimpleWatchdog overrun warning ----
    \* @type: Int;
    wdExp,
    \* @type: Int;
    wdLastPrint,
    \* @type: Int;
    prints,
    \* @type: Int;
    gapWd,
    \* ---- Toggle with steady debounce ----
    \* @type: Int;
    dbLatest,
    \* @type: Bool;
    prevSig,
    \* @type: Bool;
    tog,
    \* @type: Int;
    lastFlip,
    \* @type: Int;
    flips,
    \* @type: Int;
    gapTg,
    \* @type: Bool;
    flippedOnEdge     \* every change of tog so far happened on a released-to-pressed edge of the sampled signal

\* @type: <<Int, Int, Int>>;
bd == <<bdLatest, trues, gapBd>>
\* @type: <<Int, Int, Int, Int>>;
pf == <<pfLast, lastLow, lows, gapPf>>
\* @type: <<Int, Int, Int, Int>>;
wd == <<wdExp, wdLastPrint, prints, gapWd>>
\* @type: <<Int, Bool, Bool, Int, Int, Int, Bool>>;
tg == <<dbLatest, prevSig, tog, lastFlip, flips, gapTg, flippedOnEdge>>

Init ==
    /\ now \in 0..1000000 /\ P \in 1..100000
    /\ bdLatest = 0 /\ trues = 0 /\ gapBd = 0
    /\ pfLast = -P /\ lastLow = -P /\ lows = 0 /\ gapPf = 0
    /\ wdExp = 0 /\ wdLastPrint = 0 /\ prints = 0 /\ gapWd = 0
    /\ dbLatest = -P /\ prevSig = FALSE /\ tog = FALSE /\ lastFlip = -P /\ flips = 0 /\ gapTg = 0 /\ flippedOnEdge = TRUE

Tick == \E d \in 0..10000000 : now' = now + d /\ UNCHANGED <<P, bd, pf, wd, tg>>

\* ButtonDebouncer.get(): True iff pressed and more than a period since the last True
BdGet == \E level \in BOOLEAN :
    LET fire == level /\ now - bdLatest > P IN
    /\ bdLatest' = (IF fire THEN now ELSE bdLatest)
    /\ trues' = trues + (IF fire THEN 1 ELSE 0)
    /\ gapBd' = (IF fire THEN now - bdLatest ELSE gapBd)
    /\ UNCHANGED <<now, P, pf, wd, tg>>

\* PeriodicFilter.filter(): a record below the bypass level passes only when a period has gone by
PfFilter == \E high \in BOOLEAN :
    LET slot == now - pfLast > P
        low  == slot /\ ~high
    IN
    /\ pfLast' = (IF slot THEN now ELSE pfLast)
    /\ lastLow' = (IF low THEN now ELSE lastLow)
    /\ lows' = lows + (IF low THEN 1 ELSE 0)
    /\ gapPf' = (IF low THEN now - lastLow ELSE gapPf)
    /\ UNCHANGED <<now, P, bd, wd, tg>>

\* SimpleWatchdog: reset() / printIfExpired()
WdReset == \E t \in 1..10000000 : wdExp' = now + t /\ UNCHANGED <<now, P, bd, pf, tg, wdLastPrint, prints, gapWd>>
WdPrint ==
    LET p == now > wdExp /\ now - wdLastPrint > 1000000 IN
    /\ wdLastPrint' = (IF p THEN now ELSE wdLastPrint)
    /\ prints' = prints + (IF p THEN 1 ELSE 0)
    /\ gapWd' = (IF p THEN now - wdLastPrint ELSE gapWd)
    /\ UNCHANGED <<now, P, bd, pf, tg, wdExp>>

\* Toggle with a steady debounce: the sampled signal stays pressed for a period after an accepted press
Sample == \E level \in BOOLEAN :
    LET sig    == IF now - dbLatest < P THEN TRUE ELSE level
        latest == IF now - dbLatest >= P /\ level THEN now ELSE dbLatest
        edge   == sig /\ ~prevSig
    IN
    /\ dbLatest' = latest /\ prevSig' = sig
    /\ tog' = (IF edge THEN ~tog ELSE tog)
    /\ lastFlip' = (IF edge THEN now ELSE lastFlip)
    /\ flips' = flips + (IF edge THEN 1 ELSE 0)
    /\ gapTg' = (IF edge THEN now - lastFlip ELSE gapTg)
    /\ flippedOnEdge' = (flippedOnEdge /\ ((tog' # tog) <=> (sig /\ ~prevSig)))
    /\ UNCHANGED <<now, P, bd, pf, wd>>

Next == Tick \/ BdGet \/ PfFilter \/ WdReset \/ WdPrint \/ Sample

(* what C19 asks for *)
Spacing ==
    /\ trues >= 2 => gapBd > P
    /\ lows >= 2 => gapPf > P
    /\ prints >= 2 => gapWd > 1000000
    /\ flips >= 2 => gapTg >= P
    /\ flippedOnEdge

(* ... and the inductive strengthening *)
IndInv ==
    /\ Spacing
    /\ P >= 1 /\ now >= 0 /\ trues >= 0 /\ lows >= 0 /\ prints >= 0 /\ flips >= 0
    /\ bdLatest <= now
    /\ pfLast <= now /\ lastLow <= pfLast
    /\ wdLastPrint <= now
    /\ dbLatest <= now /\ lastFlip <= dbLatest
    /\ (~prevSig => now - dbLatest >= P)

IndInit ==
    /\ now \in 0..2000000000 /\ P \in 1..100000
    /\ bdLatest \in -100000..2000000000 /\ trues \in 0..1000 /\ gapBd \in -100000..2000000000
    /\ pfLast \in -100000..2000000000 /\ lastLow \in -100000..2000000000 /\ lows \in 0..1000 /\ gapPf \in -100000..2000000000
    /\ wdExp \in 0..2000000000 /\ wdLastPrint \in 0..2000000000 /\ prints \in 0..1000 /\ gapWd \in -100000..2000000000
    /\ dbLatest \in -100000..2000000000 /\ prevSig \in BOOLEAN /\ tog \in BOOLEAN /\ lastFlip \in -100000..2000000000
    /\ flips \in 0..1000 /\ gapTg \in -100000..2000000000 /\ flippedOnEdge \in BOOLEAN
    /\ IndInv
=============================================================================
