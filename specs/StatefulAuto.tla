---------------------------- MODULE StatefulAuto ----------------------------
(***************************************************************************)
(* robotpy_ext.autonomous.StatefulAutonomous: a time-driven state machine  *)
(* used as an autonomous mode.  on_iteration(tm) gets the elapsed time as  *)
(* an argument.  Durations and registered variables live on the dashboard  *)
(* and are read at on_enable().                                            *)
(*                                                                         *)
(* One action per public call; a state function's in-state action          *)
(* (next_state / done / nothing) is part of the on_iteration event because *)
(* it only takes effect in the next iteration.                             *)
(*                                                                         *)
(* Dev: no_ran_guard describes the pinned tree (the expiry test ignored    *)
(* whether the state had run since it was entered, so a stale expiry time  *)
(* from an earlier entry or an earlier autonomous period skipped the       *)
(* state).                                                                 *)
(***************************************************************************)
EXTENDS Integers, Sequences, FiniteSets, TLC

CONSTANTS Dev
None  == "none"
NoDur == -1
Inf   == 1000000

VARIABLES
    sh,      \* [states, first, durOf, nextOf, var0]  (var0: default of the registered variable "v")
    built,   \* on_enable() has run at least once
    cur,     \* current state or None
    fin,     \* the "done with autonomous mode" flag
    ran, st0, exp,   \* per state
    dur,     \* per state: duration attribute as read from the dashboard at the last on_enable()
    sd,      \* per state: dashboard value of '<MODE_NAME>\<state>_duration'
    uv,      \* attribute value of the registered variable
    sdv,     \* dashboard value of the registered variable
    lastTm,  \* tm of the last on_iteration in this period (-1: none yet)
    out, br

savars == <<sh, built, cur, fin, ran, st0, exp, dur, sd, uv, sdv, lastTm, out, br>>

States == sh.states
Timed(s) == sh.durOf[s] # NoDur

Init(shape) ==
    /\ sh = shape /\ built = FALSE /\ cur = None /\ fin = FALSE
    /\ ran = [s \in shape.states |-> FALSE]
    /\ st0 = [s \in shape.states |-> 0]
    /\ exp = [s \in shape.states |-> Inf]
    /\ dur = [s \in shape.states |-> shape.durOf[s]]
    /\ sd = [s \in shape.states |-> shape.durOf[s]]
    /\ uv = shape.var0 /\ sdv = shape.var0
    /\ lastTm = -1 /\ out = <<>> /\ br = <<>>

Stale == "no_ran_guard" \in Dev
\* next_state(s): entering a state makes its earlier start/expiry meaningless
Enter(s, r, t, e) ==
    [ran |-> [r EXCEPT ![s] = FALSE],
     st0 |-> IF Stale THEN t ELSE [t EXCEPT ![s] = 0],
     exp |-> IF Stale THEN e ELSE [e EXCEPT ![s] = Inf]]

SdWrite(s, d) ==      \* a dashboard client edits a duration
    /\ s \in States /\ Timed(s) /\ sd' = [sd EXCEPT ![s] = d] /\ out' = <<>> /\ br' = <<>>
    /\ UNCHANGED <<sh, built, cur, fin, ran, st0, exp, dur, uv, sdv, lastTm>>
VarWrite(v) ==        \* ... or the registered variable
    /\ sdv' = v /\ out' = <<>> /\ br' = <<>>
    /\ UNCHANGED <<sh, built, cur, fin, ran, st0, exp, dur, sd, uv, lastTm>>

OnEnable ==
    /\ built' = TRUE /\ dur' = sd /\ uv' = sdv /\ fin' = FALSE /\ cur' = sh.first
    /\ LET x == Enter(sh.first, ran, st0, exp) IN ran' = x.ran /\ st0' = x.st0 /\ exp' = x.exp
    /\ lastTm' = -1 /\ out' = <<>> /\ br' = <<"Enable">>
    /\ UNCHANGED <<sh, sd, sdv>>

OnDisable ==
    /\ out' = <<>> /\ br' = <<>>
    /\ UNCHANGED <<sh, built, cur, fin, ran, st0, exp, dur, sd, uv, sdv, lastTm>>

\* another mode built on the same base class (the selector constructs every mode it finds) runs a whole autonomous
\* period of its own between two periods of this one: nothing of it shows here
SiblingPeriod ==
    /\ out' = <<>> /\ br' = <<>>
    /\ UNCHANGED <<sh, built, cur, fin, ran, st0, exp, dur, sd, uv, sdv, lastTm>>

\* on_iteration(tm); act is what the state function (if one is called) does: none / ns(s) / done; the state function may
\* also assign the registered variable (av) and its own '<state>_duration' attribute (ad) - plain attribute writes that
\* last until the next on_enable() reads the dashboard again (-1: no assignment)
OnIteration(tm, act, tgt, av, ad) ==
    /\ built
    /\ LET s0 == cur
           expired == s0 # None /\ (Stale \/ ran[s0]) /\ exp[s0] < tm
           s1 == IF expired THEN sh.nextOf[s0] ELSE s0
           x1 == IF expired /\ s1 # None THEN Enter(s1, ran, st0, exp) ELSE [ran |-> ran, st0 |-> st0, exp |-> exp]
           nss == IF expired THEN exp[s0] ELSE tm
       IN IF s1 = None
          THEN /\ cur' = None /\ fin' = TRUE /\ out' = <<>>
               /\ br' = (IF expired THEN <<"ExpireEnd">> ELSE <<"Idle">>)
               /\ UNCHANGED <<ran, st0, exp, uv, dur>>
          ELSE LET initial == ~x1.ran[s1]
                   ran2 == [x1.ran EXCEPT ![s1] = TRUE]
                   st2 == IF initial THEN [x1.st0 EXCEPT ![s1] = nss] ELSE x1.st0
                   ex2 == IF initial THEN [x1.exp EXCEPT ![s1] = IF dur[s1] = NoDur THEN Inf ELSE nss + dur[s1]]
                          ELSE x1.exp
                   call == [s |-> s1, tm |-> tm, stm |-> tm - st2[s1], ic |-> initial, v |-> uv]
                   \* the in-state action
                   s2 == CASE act = "ns" -> tgt [] act = "done" -> None [] OTHER -> s1
                   x3 == IF act = "ns" THEN Enter(tgt, ran2, st2, ex2) ELSE [ran |-> ran2, st0 |-> st2, exp |-> ex2]
               IN /\ cur' = s2 /\ ran' = x3.ran /\ st0' = x3.st0 /\ exp' = x3.exp
                  /\ fin' = fin
                  /\ uv' = (IF av # -1 THEN av ELSE uv)
                  /\ dur' = (IF ad # -1 /\ Timed(s1) THEN [dur EXCEPT ![s1] = ad] ELSE dur)
                  /\ out' = <<call>>
                  /\ br' = (IF expired THEN <<"ExpireNext">> ELSE <<>>)
                           \o (IF initial THEN <<"Enter">> ELSE <<"Continue">>)
                           \o (IF act = "ns" THEN <<"UserNext">> ELSE IF act = "done" THEN <<"UserDone">> ELSE <<>>)
    /\ lastTm' = tm
    /\ UNCHANGED <<sh, built, sd, sdv>>

EvEnabled(ev) ==
    CASE ev.e = "sdw" -> ev.s \in States /\ Timed(ev.s)
      [] ev.e = "iter" -> built /\ (ev.act = "ns" => ev.s \in States)
      [] ev.e \in {"varw", "enable", "disable", "sibling"} -> TRUE
      [] OTHER -> FALSE
EvNext(ev) ==
    CASE ev.e = "sdw"     -> SdWrite(ev.s, ev.d)
      [] ev.e = "varw"    -> VarWrite(ev.v)
      [] ev.e = "enable"  -> OnEnable
      [] ev.e = "disable" -> OnDisable
      [] ev.e = "sibling" -> SiblingPeriod
      [] ev.e = "iter"    -> OnIteration(ev.tm, ev.act, ev.s, IF "av" \in DOMAIN ev THEN ev.av ELSE -1,
                                         IF "ad" \in DOMAIN ev THEN ev.ad ELSE -1)

Obs == [cb |-> out]
Has(b) == \E i \in 1..Len(br) : br[i] = b

(* C15 *)
C15_NonNegative == \A i \in 1..Len(out) : out[i].stm >= 0
\* (the duration in force is the one the state was entered with: exp - st0)
C15_WithinDuration == \A i \in 1..Len(out) : (~out[i].ic /\ ran[out[i].s] /\ exp[out[i].s] # Inf)
                                                => out[i].stm <= exp[out[i].s] - st0[out[i].s]
\* a state that was entered is always called at least once before its expiry can move the machine on
C15_RunsBeforeExpiring ==
    [][((Has("ExpireNext") \/ Has("ExpireEnd"))' /\ cur # None) => ran[cur]]_savars
\* the first on_iteration() after on_enable() calls the first state with initial_call
C15_FirstStateFirst ==
    [][(Has("Enable") /\ lastTm' # -1) => (Len(out') = 1 /\ out'[1].s = sh.first /\ out'[1].ic /\ out'[1].stm = 0)]_savars
\* the successor's clock starts at the predecessor's expiry
C15_SuccessorStartsAtExpiry ==
    [][(Has("ExpireNext")' /\ cur # None) => (out'[1].ic /\ out'[1].tm - out'[1].stm = exp[cur])]_savars
\* once finished nothing runs until the next on_enable()
C15_SilentWhenFinished == [][(cur = None /\ ~Has("Enable")') => out' = <<>>]_savars
\* durations and the registered variable are the dashboard's values at on_enable()
C15_ReadsDashboardAtEnable == [][Has("Enable")' => (dur' = sd /\ uv' = sdv)]_savars
=============================================================================
