---------------------------- MODULE MC_MagicRobot ----------------------------
(* Exhaustive (bounded) exploration of the MagicRobot loop: every driver-station mode sequence,   *)
(* every fault placement (bounded number of raising callbacks), FMS on/off, attribute writes.     *)
EXTENDS MagicRobot

CONSTANTS LayoutNames, MaxIter, MaxChg, MaxFaults, FmsChoices, AdvChoices, AllowFmsToggle, AllowEnd

VARIABLES nchg      \* environment inputs delivered so far

F(d) == d      \* readability

L1 == [comps |-> <<"c1", "c2">>,
       has |-> [c \in {"c1", "c2"} |-> IF c = "c1" THEN [setup |-> TRUE, on_enable |-> TRUE, on_disable |-> TRUE]
                                       ELSE [setup |-> FALSE, on_enable |-> TRUE, on_disable |-> FALSE]],
       resets |-> [c \in {"c1", "c2"} |-> IF c = "c1" THEN [r |-> 0] ELSE <<>>],
       plain |-> [c \in {"c1", "c2"} |-> IF c = "c1" THEN [p |-> 5] ELSE [q |-> 7]],
       feedbacks |-> {[o |-> "robot", key |-> "rk"], [o |-> "c1", key |-> "k1"]},
       fbtypes |-> [k \in {"rk", "k1"} |-> IF k = "rk" THEN "int" ELSE "bool"],
       sm |-> {}, teleAuto |-> FALSE, modes |-> {}, defmode |-> None, period |-> 20000]
L2 == [comps |-> <<"c1">>,
       has |-> [c \in {"c1"} |-> [setup |-> TRUE, on_enable |-> TRUE, on_disable |-> TRUE]],
       resets |-> [c \in {"c1"} |-> [r |-> 0]],
       plain |-> [c \in {"c1"} |-> [p |-> 5]],
       feedbacks |-> {[o |-> "c1", key |-> "k1"]},
       fbtypes |-> [k \in {"k1"} |-> "int"],
       sm |-> {}, teleAuto |-> TRUE, modes |-> {"m1", "m2"}, defmode |-> "m1", period |-> 20000]
L3 == [comps |-> <<"c1", "c2">>,
       has |-> [c \in {"c1", "c2"} |-> [setup |-> FALSE, on_enable |-> (c = "c2"), on_disable |-> TRUE]],
       resets |-> [c \in {"c1", "c2"} |-> IF c = "c1" THEN [r |-> 0, s |-> 3] ELSE [r |-> 1]],
       plain |-> [c \in {"c1", "c2"} |-> [p |-> 5]],
       feedbacks |-> {}, fbtypes |-> <<>>,
       sm |-> {}, teleAuto |-> FALSE, modes |-> {"m1"}, defmode |-> None, period |-> 5000]
L4 == [L2 EXCEPT !.teleAuto = FALSE, !.defmode = None]
\* two components, the first a StateMachine that teleopPeriodic / the autonomous mode / the other component may engage
L5 == [comps |-> <<"s1", "c2">>,
       has |-> [c \in {"s1", "c2"} |-> [setup |-> FALSE, on_enable |-> TRUE, on_disable |-> TRUE]],
       resets |-> [c \in {"s1", "c2"} |-> <<>>],
       plain |-> [c \in {"s1", "c2"} |-> [p |-> 5]],
       feedbacks |-> {}, fbtypes |-> <<>>,
       sm |-> {"s1"}, teleAuto |-> FALSE, modes |-> {"m1"}, defmode |-> "m1", period |-> 20000]

\* L2 with the default robotPeriodic(): the chooser widget's selection is fetched every iteration
L6 == L4 @@ [rp |-> FALSE]

LayoutOf(n) == CASE n = "L1" -> L1 [] n = "L2" -> L2 [] n = "L3" -> L3 [] n = "L4" -> L4 [] n = "L5" -> L5 [] n = "L6" -> L6

MCInit == /\ \E n \in LayoutNames : \E f \in FmsChoices : Init(LayoutOf(n), f)
          /\ nchg = 0

ResetAttrs == {[c |-> c, a |-> a] : c \in CompSet, a \in UNION {DOMAIN sh.resets[c2] : c2 \in CompSet}}
RA == {x \in ResetAttrs : x.a \in DOMAIN sh.resets[x.c]}
\* what a callback may write: nothing, or one will_reset_to attribute := 9, or (execute only) a plain one
WritesFor(k, o) ==
    IF k \in {"teleopPeriodic", "auto.on_iteration", "execute", "disabledPeriodic"}
    THEN {<<>>} \cup {<<[c |-> x.c, a |-> x.a, v |-> 9]>> : x \in RA}
    ELSE {<<>>}

CbInputs ==
    IF todo = <<>> THEN {}
    ELSE IF Head(todo).k = "fbphase"
    THEN {[e |-> "cb", k |-> "feedback", o |-> g.o, key |-> g.key, raise |-> r, w |-> <<>>, adv |-> 0, ret |-> iterNo, eng |-> <<>>]
            : g \in fbleft, r \in (IF nfault < MaxFaults THEN BOOLEAN ELSE {FALSE})}
    ELSE IF Head(todo).k \in Pseudo THEN {}
    ELSE LET s == Head(todo) IN
         {[e |-> "cb", k |-> s.k, o |-> s.o, key |-> "", raise |-> r, w |-> w, adv |-> a, ret |-> 0, eng |-> g, dsw |-> dw,
           endc |-> ec]
            : ec \in (IF AllowEnd /\ ~exit /\ nchg < MaxChg /\ s.k \in {"on_enable", "teleopPeriodic", "execute", "auto.on_iteration"}
                      THEN BOOLEAN ELSE {FALSE}),
              dw \in (IF nchg < MaxChg /\ s.k \in {"on_disable", "teleopInit", "disabledInit", "teleopPeriodic"}
                      THEN {""} \cup ({"disabled", "teleop", "auto"} \ {dsNew}) ELSE {""}),
              r \in (IF nfault < MaxFaults /\ s.k # "setup" THEN BOOLEAN ELSE {FALSE}),
              w \in WritesFor(s.k, s.o),
              g \in (IF s.k \in {"teleopPeriodic", "auto.on_iteration", "execute", "disabledPeriodic", "on_enable"}
                     THEN {<<>>} \cup {<<c>> : c \in sh.sm} ELSE {<<>>}),
              a \in (IF s.k \in {"teleopPeriodic", "execute"} THEN AdvChoices ELSE {0})}

EnvInputs ==
    IF pc # "wait" THEN {}
    ELSE {[e |-> "wake"]}
         \cup (IF nchg < MaxChg
               THEN {[e |-> "ds", m |-> m] : m \in {"disabled", "auto", "teleop", "test"} \ {dsNew}}
                    \cup (IF AllowFmsToggle THEN {[e |-> "fms", b |-> ~fms]} ELSE {})
                    \cup {[e |-> "sel", s |-> s] : s \in (sh.modes \cup {"bogus"}) \ {selStr}}
                    \cup (IF ~RP THEN {[e |-> "choose", m |-> m] : m \in (sh.modes \cup {"None"}) \ {chooserNew}} ELSE {})
                    \cup (IF AllowEnd /\ ~exit THEN {[e |-> "end"]} ELSE {})
               ELSE {})
Inputs == CbInputs \cup EnvInputs
          \cup (IF pc = "body" /\ todo = <<>> THEN {[e |-> "wait"]} ELSE {})

MCNext ==
    IF SilentEnabled THEN Silent /\ UNCHANGED nchg
    ELSE \E ev \in Inputs : /\ EvNext(ev)
                            /\ nchg' = nchg + (IF ev.e \in {"ds", "fms", "sel", "end", "choose"} \/ (ev.e = "cb" /\ "dsw" \in DOMAIN ev /\ (ev.dsw # "" \/ ev.endc))
                                               THEN 1 ELSE 0)
MCSpec == MCInit /\ [][MCNext]_<<rvars, nchg>>

Bound == iterNo <= MaxIter

\* absolute time is irrelevant; only the distance to the alarm and to the autonomous timer matter
MCView == <<sh, chooser, chooserNew, ds, dsNew, fms, exit, selStr, pc, mode, ntMode, todo, fbleft, en, nsetup, rv, smReq, fbNT, alarm - now,
            IF mode = "auto" THEN now - autoT0 ELSE 0, active, mIter, nfault, swallowed, nchg,
            iterNo>>

EnabledAgrees == \A ev \in Inputs : EvEnabled(ev) = ENABLED EvNext(ev)
\* the robot thread never gets stuck: unless it is blocked, finished or dead there is something to do
NoStuck == (pc \notin {"crashed", "exited"}) => (SilentEnabled \/ Inputs # {})

\* reachability probes (each must be falsified)
Probe_Swallow == swallowed = 0
Probe_Crash == pc # "crashed"
Probe_AutoWithMode == ~(mode = "auto" /\ active # None /\ pc = "body")
Probe_SelectOverrides == ~(mode = "auto" /\ active # None /\ active # sh.defmode)
Probe_ResetWritten == ~(\E c \in CompSet : \E a \in DOMAIN sh.resets[c] : rv[c][a] # sh.resets[c][a])
Probe_Overrun == ~(pc = "wait" /\ now > alarm)
Probe_Exited == pc # "exited"
Probe_EndMidIteration == ~(exit /\ pc = "body" /\ todo # <<>> /\ mode \in {"teleop", "auto"})   \* endCompetition() from a callback
Probe_SmGo == ~(\E c \in sh.sm : smReq[c] /\ NextSite = Site("execute", c))
Probe_SmReqSurvivesDisable == ~(\E c \in sh.sm : smReq[c] /\ mode = "disabled" /\ pc = "wait")   \* engaged from disabledPeriodic
\* the driver station changed its mind while the robot was leaving a mode: the dispatcher acts on the word it polled
Probe_StaleDispatch == ~(pc = "dispatch" /\ todo = <<>> /\ ds # dsNew)
\* a mode picked on the chooser widget while the robot was running is the one that runs in the next autonomous period
Probe_ChooserPicked == ~(mode = "auto" /\ active # None /\ active # sh.defmode /\ selStr \notin sh.modes)
Probe_DirectSwitch == ~(mode = "teleop" /\ pc = "enter" /\ \E c \in CompSet : en[c])
=============================================================================
