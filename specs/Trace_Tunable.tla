---------------------------- MODULE Trace_Tunable ----------------------------
EXTENDS Tunable, TraceKit
CONSTANTS Prop
tvars == <<tuvars, kvars>>
TInit == KInit /\ Init(Batch[tid].shape)
Diffs(ev, o) ==
    CASE ev.e = "setup" -> IF o.err # ret'.err THEN {"setup_error"} ELSE {}
      [] ev.e \in {"pyr", "ntr"} ->
            (IF o.type # ret'.type THEN {"type"} ELSE {}) \cup (IF o.vi # ret'.vi THEN {"value"} ELSE {})
      [] OTHER -> IF o.err THEN {"write_error"} ELSE {}
TStep ==
    /\ vkind = "" /\ l <= Len(Tr.steps) /\ l' = l + 1 /\ UNCHANGED tid
    /\ LET ev == Tr.steps[l].in  o == Tr.steps[l].out IN
       IF ev.e = "raised"      \* the code under test raised where no exception is specified
       THEN /\ UNCHANGED tuvars /\ UNCHANGED seen
            /\ Verdict("MISMATCH", [v |-> "MISMATCH", tid |-> Tr.id, l |-> l, clauses |-> {"raised"}, br |-> <<>>,
                                    exp |-> [raised |-> FALSE], obs |-> o])
       ELSE IF ~EvEnabled(ev)
       THEN UNCHANGED tuvars /\ UNCHANGED seen /\ Verdict("STUCK", [v |-> "STUCK", tid |-> Tr.id, l |-> l, ev |-> ev])
       ELSE /\ EvNext(ev)
            /\ seen' = seen \cup {ev.e}
                  \cup (IF ev.e = "setup" /\ \E t \in 1..NTn : ~sh.tunables[t].wd /\ nt[Path(ev.i, t)] # Absent THEN {"preserved"} ELSE {})
                  \cup (IF ev.e = "setup" /\ \E t \in 1..NTn : sh.tunables[t].wd /\ nt[Path(ev.i, t)] # Absent THEN {"overwritten"} ELSE {})
                  \cup (IF ev.e = "pyr" /\ ret'.vi > 0 THEN {"read_nondefault"} ELSE {})
            /\ LET d == Diffs(ev, o) IN
               IF d # {} THEN Verdict("MISMATCH", [v |-> "MISMATCH", tid |-> Tr.id, l |-> l, clauses |-> d, br |-> <<>>,
                                                   exp |-> ret', obs |-> o, path |-> IF ev.e = "setup" THEN "" ELSE Path(ev.i, ev.t)])
               ELSE IF l = Len(Tr.steps) THEN Verdict("ACCEPT", [v |-> "ACCEPT", tid |-> Tr.id, n |-> l, seen |-> seen'])
               ELSE NoVerdict
TSpec == TInit /\ [][TStep]_tvars
=============================================================================
