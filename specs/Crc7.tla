---------------------------- MODULE Crc7 ----------------------------
(***************************************************************************)
(* robotpy_ext.misc.crc7: the navX register-protocol checksum.             *)
(* Specification: the bit-serial CRC with reflected polynomial 0x91        *)
(* (x^7 + x^3 + 1, least-significant bit first), zero initial value.       *)
(* Implementation model: csum' = Table[byte XOR csum], with Table read     *)
(* from the real module at run time (environment variable CRC_TABLE names  *)
(* a JSON file written by harness/drivers/crc_driver.py).                  *)
(* Both machines are stepped together on every byte; the reachable state   *)
(* space is finite, so exhaustive exploration covers every message of      *)
(* every length.                                                           *)
(***************************************************************************)
EXTENDS Crc7Ref, Sequences, FiniteSets, TLC, Json, IOUtils

Table == JsonDeserialize(IOEnv.CRC_TABLE)       \* <<t0, ..., t255>>
T(x) == Table[x + 1]
VARIABLES ct,     \* checksum of the table-driven implementation
          cb      \* checksum of the bit-serial specification
cvars == <<ct, cb>>

Init == ct = 0 /\ cb = 0
Feed(b) == ct' = T(b ^^ ct) /\ cb' = Byte(cb, b)
Next == \E b \in 0..255 : Feed(b)
Spec == Init /\ [][Next]_cvars

Refines == ct = cb
InRange == ct \in 0..127 /\ cb \in 0..127

(* facts about the table itself, checked by TLC when the module is loaded *)
ASSUME TableShape == Len(Table) = 256 /\ \A x \in 0..255 : T(x) \in 0..127
ASSUME TableIsBitSerial == \A x \in 0..255 : T(x) = Byte(0, x)
\* XOR-linearity of one table step; by induction over the length (csum' = T(b XOR csum)) the
\* checksum of equal-length messages is XOR-linear: crc(m1 XOR m2) = crc(m1) XOR crc(m2)
ASSUME TableLinear == \A x \in 0..255 : \A y \in 0..255 : T(x ^^ y) = T(x) ^^ T(y)
ASSUME ByteIsSerial == \A c \in 0..127 : \A b \in 0..255 : Byte(c, b) = Serial(c, b)
\* the zero-input bit step is a bijection of the 7-bit register that fixes only 0: once an error
\* has made the syndrome non-zero, trailing correct bits can never cancel it
ASSUME ZeroStepBijective ==
    /\ \A c \in 0..127 : BitStep(c) \in 0..127
    /\ \A c \in 0..127 : \A d \in 0..127 : (BitStep(c) = BitStep(d)) => c = d
    /\ \A c \in 1..127 : BitStep(c) # 0
=============================================================================
