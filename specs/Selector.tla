---------------------------- MODULE Selector ----------------------------
(***************************************************************************)
(* AutonomousModeSelector, lifecycle part (C14): which mode is active and  *)
(* which callbacks it receives through start() / periodic() / disable(),   *)
(* or through run(): one blocking call per autonomous period that is, in   *)
(* terms of this module, Start (its own timer + on_enable), one Periodic   *)
(* per loop iteration - iter_fn may call disable() or change the selection *)
(* in between - a Tick per NotifierDelay.wait(), and a closing Disable.    *)
(* Events of a run() period carry via = "run".                             *)
(* (run() periods inside the robot loop are also part of MagicRobot.tla.)  *)
(* sh = [modes : set of names, defmode : name or "none"].                  *)
(* Time in microseconds of FPGA time.                                      *)
(* Dev: no_clear_on_disable (the active mode is not forgotten).            *)
(***************************************************************************)
EXTENDS Integers, Sequences, FiniteSets, TLC
CONSTANTS Dev
None == "none"
VARIABLES sh, now, selStr, chooser, active, started, t0, out, life,
          inRun, rt0,      \* inside a run() call; the origin of run()'s own timer
          exitReq          \* endCompetition() was called: a run() loop ends at its next head; start/periodic/disable are unaffected
slvars == <<sh, now, selStr, chooser, active, started, t0, out, life, inRun, rt0, exitReq>>
\* life[m] : "idle" | "enabled" - a mode's on_enable/on_disable bracket

Init(shape) ==
    /\ sh = shape /\ now = 0 /\ selStr = "" /\ chooser = shape.defmode /\ active = None /\ started = FALSE /\ t0 = 0
    /\ out = <<>> /\ life = [m \in shape.modes |-> "idle"] /\ inRun = FALSE /\ rt0 = 0 /\ exitReq = FALSE

Tick(d) == now' = now + d /\ out' = <<>> /\ UNCHANGED <<sh, selStr, chooser, active, started, t0, life, inRun, rt0, exitReq>>
\* the dashboard's "Auto Selector" string
SetString(s) == selStr' = s /\ out' = <<>> /\ UNCHANGED <<sh, now, chooser, active, started, t0, life, inRun, rt0, exitReq>>
\* a selection made on the chooser widget; "None" - and, with wpilib's SendableChooser, any unknown
\* option - selects no mode
ChooserSelect(s) ==
    /\ chooser' = IF s \in sh.modes THEN s ELSE None
    /\ out' = <<>> /\ UNCHANGED <<sh, now, selStr, active, started, t0, life, inRun, rt0, exitReq>>

Chosen == IF selStr \in sh.modes THEN selStr ELSE chooser
\* start() without a disable() since the previous start() is allowed ("it is okay to not call disable() if you do
\* not need on_disable"): the previously active mode is simply abandoned and must not hear from the selector again
Start(run) ==
    /\ ~inRun
    /\ active' = Chosen
    \* start() keeps its timer on the selector (periodic() reads it); run() has a timer of its own
    /\ IF run THEN inRun' = TRUE /\ rt0' = now /\ UNCHANGED <<started, t0>>
              ELSE started' = TRUE /\ t0' = now /\ UNCHANGED <<inRun, rt0>>
    /\ out' = IF Chosen # None THEN <<[m |-> Chosen, k |-> "on_enable"]>> ELSE <<>>
    /\ life' = [m \in sh.modes |-> IF m = Chosen THEN "enabled" ELSE IF m = active THEN "idle" ELSE life[m]]
    /\ UNCHANGED <<sh, now, selStr, chooser, exitReq>>
\* endCompetition(): only a flag; the mode that is active still gets its on_disable() from the next disable()
EndComp == exitReq' = TRUE /\ out' = <<>> /\ UNCHANGED <<sh, now, selStr, chooser, active, started, t0, life, inRun, rt0>>
Periodic(run) ==
    /\ IF run THEN inRun /\ ~exitReq ELSE started /\ ~inRun
    /\ out' = IF active # None THEN <<[m |-> active, k |-> "on_iteration", t |-> now - (IF run THEN rt0 ELSE t0)]>> ELSE <<>>
    /\ UNCHANGED <<sh, now, selStr, chooser, active, started, t0, life, inRun, rt0, exitReq>>
\* last: the disable() run() itself makes when the autonomous period is over
Disable(last) ==
    /\ last => inRun
    /\ out' = IF active # None THEN <<[m |-> active, k |-> "on_disable"]>> ELSE <<>>
    /\ life' = IF active # None THEN [life EXCEPT ![active] = "idle"] ELSE life
    /\ active' = IF "no_clear_on_disable" \in Dev THEN active ELSE None
    /\ inRun' = (IF last THEN FALSE ELSE inRun)
    /\ UNCHANGED <<sh, now, selStr, chooser, started, t0, rt0, exitReq>>

ViaRun(ev) == "via" \in DOMAIN ev /\ ev.via = "run"
IsLast(ev) == "last" \in DOMAIN ev /\ ev.last
EvEnabled(ev) == CASE ev.e = "start" -> ~inRun
                   [] ev.e = "periodic" -> IF ViaRun(ev) THEN inRun /\ ~exitReq ELSE started /\ ~inRun
                   [] ev.e = "endcomp" -> TRUE
                   [] ev.e = "disable" -> IsLast(ev) => inRun
                   [] ev.e \in {"tick", "str", "choose"} -> TRUE [] OTHER -> FALSE
EvNext(ev) == CASE ev.e = "tick" -> Tick(ev.d) [] ev.e = "str" -> SetString(ev.s) [] ev.e = "choose" -> ChooserSelect(ev.s)
                [] ev.e = "start" -> Start(ViaRun(ev)) [] ev.e = "periodic" -> Periodic(ViaRun(ev))
                [] ev.e = "disable" -> Disable(IsLast(ev)) [] ev.e = "endcomp" -> EndComp

(* C14 (lifecycle part) *)
\* only the active mode ever receives a callback
C14_OnlyActive == [][\A i \in 1..Len(out') : out'[i].m = active \/ out'[i].m = active']_slvars
\* on_iteration only inside the on_enable / on_disable bracket; nothing after on_disable
C14_Bracket == [][\A i \in 1..Len(out') :
                     CASE out'[i].k = "on_enable" -> TRUE
                       [] out'[i].k = "on_iteration" -> life[out'[i].m] = "enabled"
                       [] out'[i].k = "on_disable" -> life[out'[i].m] = "enabled"]_slvars
C14_AtMostOneEnabled == Cardinality({m \in sh.modes : life[m] = "enabled"}) <= 1
C14_EnabledIsActive == \A m \in sh.modes : life[m] = "enabled" => active = m
\* the dashboard string wins when it names a mode, else the chooser
C14_Selection == [][((started' /\ t0' # t0) \/ (~started /\ started') \/ (~inRun /\ inRun')) => active' = (IF selStr \in sh.modes THEN selStr ELSE chooser)]_slvars
C14_ElapsedNonNegative == \A i \in 1..Len(out) : out[i].k = "on_iteration" => out[i].t >= 0
=============================================================================
