---------------------------- MODULE Trace_MagicSM ----------------------------
(***************************************************************************)
(* Batch trace acceptor for MagicSM: every trace recorded from the real    *)
(* magicbot.StateMachine is replayed in lock-step against the spec.        *)
(* A trace is [id, shape, steps]; a step is [in |-> event, out |-> obs].   *)
(* Verdicts are total: ACCEPT / MISMATCH (a clause owned by Prop fails) /  *)
(* FOREIGN (only clauses of other properties fail; lock-step stops, the    *)
(* spec-free monitors keep running) / STUCK (event not enabled: harness    *)
(* out of sync, a machinery failure).                                      *)
(***************************************************************************)
EXTENDS MagicSM, Json, IOUtils, TLCExt

CONSTANTS Prop        \* the property whose clauses are enforced, or "ALL"

VARIABLES tid, l, verdict, vkind, vnew, seen, mon

Batch == JsonDeserialize(IOEnv.TRACE_FILE)
NT == Len(Batch)
T == Batch[tid]
tvars == <<mvars, tid, l, verdict, vkind, vnew, seen, mon>>

ToSet(seq) == {seq[i] : i \in 1..Len(seq)}
Shape(j) == [states |-> ToSet(j.states), first |-> j.first, default |-> j.default,
             durOf |-> j.durOf, nextOf |-> j.nextOf, mf |-> ToSet(j.mf), auto |-> j.auto]

Unobs == -1000000       \* parameter not declared by the state function: not observed

MonInit == [engSince |-> FALSE, iterReq |-> FALSE, depth |-> 0, icalls |-> 0, idone |-> FALSE, pend |-> FALSE, bad |-> "",
            tainted |-> FALSE]

TInit == /\ tid \in 1..NT /\ l = 1 /\ verdict = "" /\ vkind = "" /\ vnew = FALSE /\ seen = {} /\ mon = MonInit
         /\ Init(Shape(Batch[tid].shape))

(* ---- clause comparison: expected e = Obs', observed o ---- *)
CallsOf(cb) == SelectSeq(cb, LAMBDA x : x.e = "call")
Kinds(cb) == [i \in 1..Len(cb) |-> IF cb[i].e = "call" THEN cb[i].s ELSE "<done>"]
B2I(b) == IF b THEN 1 ELSE 0

NDone(cb) == Len(SelectSeq(cb, LAMBDA x : x.e = "done"))
Diffs(e, o, engAfter) ==
    LET ec == CallsOf(e.cb)  oc == CallsOf(o.cb)
        same == Len(ec) = Len(oc) /\ \A i \in 1..Len(ec) : ec[i].s = oc[i].s
    IN
      (IF Len(ec) # Len(oc) THEN {"count"} ELSE IF ~same THEN {"names"} ELSE {})
      \* done() invocations: their number always, their position among the calls when the calls agree
      \cup (IF NDone(e.cb) # NDone(o.cb) \/ (same /\ Kinds(e.cb) # Kinds(o.cb)) THEN {"done"} ELSE {})
      \cup (IF same /\ \E i \in 1..Len(ec) : oc[i].ic # -1 /\ oc[i].ic # B2I(ec[i].ic) THEN {"ic"} ELSE {})
      \cup (IF same /\ \E i \in 1..Len(ec) : oc[i].stm # Unobs /\ oc[i].stm # ec[i].stm THEN {"stm"} ELSE {})
      \* (C03: "tm is only specified for states run as part of an engagement": not for the default state running on a
      \*  stopped machine, nor for a must_finish state that the default state's function started without engage())
      \cup (IF same /\ engAfter /\ \E i \in 1..Len(ec) : oc[i].tm # Unobs /\ oc[i].tm # ec[i].tm THEN {"tm"} ELSE {})
      \cup (IF e.exec # o.exec THEN {"exec"} ELSE {})
      \cup (IF e.cur # o.cur THEN {"cur"} ELSE {})

\* clause ownership: (clause, branches of the step) -> owning properties
\* (for the autonomous variant everything is C13's; what C02-C04 say about every StateMachine - arguments, timing of
\*  expiry, stopping - is theirs as well)
Owner(clause, branches) ==
    IF sh.auto
    THEN {"C13"} \cup (CASE clause \in {"tm", "ic"} -> {"C03"}
                         [] clause = "stm" -> {"C02", "C03"}
                         [] clause \in {"done", "exec", "cur"} -> {"C04"}
                         [] clause = "names" /\ branches \cap {"ExpireNext", "ExpireLastStop"} # {} -> {"C02"}
                         [] OTHER -> {})
    ELSE
    CASE clause = "names" ->
            IF branches \cap {"ExpireNext", "ExpireLastCycle", "ExpireLastStop"} # {} THEN {"C02"}
            ELSE IF "Start" \in branches THEN {"C04", "C01"} ELSE {"C01"}
      [] clause = "count" -> {"C01"}
      [] clause = "stm"   -> {"C02", "C03"}
      \* "the next engage() then starts ... with initial_call True and tm restarting at zero" is C04's too
      [] clause = "tm"    -> IF "Start" \in branches THEN {"C03", "C04"} ELSE {"C03"}
      [] clause = "ic"    -> IF "Start" \in branches THEN {"C03", "C04"} ELSE {"C03"}
      [] clause = "done"  -> {"C04"}
      \* "without that call the machine stops": is_executing / current_state after an iteration that was not requested
      [] clause \in {"exec", "cur"} -> IF "Start" \notin branches
                                          /\ branches \cap {"EarlyReturn", "Deactivate", "NoState", "DefaultFallback"} # {}
                                       THEN {"C04", "C01"} ELSE {"C04"}
      [] OTHER -> {}
Owned(clauses, branches) ==
    Prop = "ALL" \/ \E c \in clauses : Prop \in Owner(c, branches)

(* ---- monitors: predicates over inputs and observations only ---- *)
MonOwner(m) == IF sh.auto THEN {"C13"} ELSE
               CASE m = "mon:regular_without_engage" -> {"C01"}
                 [] m = "mon:negative_time" -> {"C02", "C03"}
                 [] m = "mon:idle_not_reset" -> {"C04"}
                 [] OTHER -> {}
MonStep(ev, o) ==
    LET hasObs == "cb" \in DOMAIN o
        oc == IF hasObs THEN CallsOf(o.cb) ELSE <<>>
        top == mon.depth = 0
        engS == IF ev.e \in {"engage", "aiter"} THEN TRUE ELSE mon.engSince
        iterStart == top /\ ev.e \in {"execute", "aiter"}
        ireq == IF iterStart THEN engS ELSE (mon.iterReq \/ ev.e = "engage")   \* engage() from a state function counts
        uncaught == ev.e = "raise" /\ ~ev.caught      \* the exception left the outermost execute()
        depth1 == IF ev.e = "ret" \/ (ev.e = "raise" /\ ev.caught) THEN mon.depth - 1
                  ELSE IF uncaught THEN 0 ELSE mon.depth + Len(oc)
        icalls1 == (IF iterStart THEN 0 ELSE mon.icalls) + Len(oc)
        iterEnd == (ev.e = "ret" /\ depth1 = 0) \/ (iterStart /\ Len(oc) = 0)
        \* a state function that selects a state after the machine stopped under it (done(), then next_state(x) /
        \* engage()) leaves x pending, and named by current_state, on a stopped machine until engage() or done()
        odone == hasObs /\ \E i \in 1..Len(o.cb) : o.cb[i].e = "done"
        idone1 == IF iterStart THEN FALSE
                  ELSE IF ~top /\ (ev.e = "done" \/ (ev.e = "nsnow" /\ odone /\ Len(oc) = 0)) THEN TRUE ELSE mon.idone
        pend1 == IF ev.e \in {"done", "disable", "adisable"} \/ (top /\ ev.e = "engage") THEN FALSE
                 \* a state function (one that called done() before, or the default state's) selects a state while the
                 \* machine is stopped: current_state names it until the next engage() / done()
                 ELSE IF ~top /\ ev.e \in {"ns", "engage", "nsnow"} /\ hasObs /\ ~o.exec THEN TRUE
                 ELSE mon.pend
        \* once an exception has left execute() the properties no longer judge the history (MagicSM!Judged); the
        \* lock-step comparison goes on
        tainted1 == mon.tainted \/ uncaught
        bad1 == IF tainted1 THEN ""
                ELSE IF \E i \in 1..Len(oc) : Regular(oc[i].s) /\ ~ireq THEN "mon:regular_without_engage"
                ELSE IF \E i \in 1..Len(oc) : (oc[i].tm # Unobs /\ oc[i].tm < 0) \/ (oc[i].stm # Unobs /\ oc[i].stm < 0)
                     THEN "mon:negative_time"
                ELSE IF iterEnd /\ hasObs /\ icalls1 = 0 /\ (o.exec \/ (o.cur # "" /\ ~pend1)) THEN "mon:idle_not_reset"
                ELSE ""
    \* an exception that leaves execute() leaves the request of that iteration pending (as implemented, see Raise)
    IN [engSince |-> IF iterEnd THEN FALSE ELSE IF uncaught THEN ireq ELSE engS, iterReq |-> ireq, depth |-> depth1,
        icalls |-> icalls1, idone |-> idone1, pend |-> pend1, bad |-> bad1, tainted |-> tainted1]

J(v) == ToJson(v)

(* ---- one step of the acceptor ---- *)
Verdict(kind, rec) == /\ verdict' = J(rec) /\ vkind' = kind /\ vnew' = TRUE
NoVerdict == /\ verdict' = verdict /\ vkind' = vkind /\ vnew' = FALSE

Lockstep ==
    LET ev == T.steps[l].in
        o  == T.steps[l].out
        m1 == MonStep(ev, o)
    IN
    /\ mon' = m1
    /\ IF ev.e = "raised"      \* an exception escaped the code under test: owned by every property
       THEN /\ UNCHANGED mvars /\ UNCHANGED seen
            /\ Verdict("MISMATCH", [v |-> "MISMATCH", tid |-> T.id, l |-> l, clauses |-> {"raised"},
                                      br |-> <<>>, exp |-> [raised |-> FALSE], obs |-> o])
       ELSE IF EvEnabled(ev)
       THEN /\ EvNext(ev)
            /\ seen' = seen \cup ToSet(br')
            /\ LET d == IF "cb" \in DOMAIN o THEN Diffs(Obs', o, eng \/ eng') ELSE {}
                   b == ToSet(br')
               IN IF d # {} THEN
                       IF Owned(d, b)
                       THEN Verdict("MISMATCH", [v |-> "MISMATCH", tid |-> T.id, l |-> l, clauses |-> d,
                                                 br |-> br', exp |-> Obs', obs |-> o])
                       ELSE Verdict("FOREIGN", [v |-> "FOREIGN", tid |-> T.id, l |-> l, clauses |-> d, br |-> br'])
                  ELSE IF m1.bad # "" /\ (Prop = "ALL" \/ Prop \in MonOwner(m1.bad))
                  THEN Verdict("MISMATCH", [v |-> "MISMATCH", tid |-> T.id, l |-> l, clauses |-> {m1.bad},
                                            br |-> br', exp |-> Obs', obs |-> o])
                  ELSE IF l = Len(T.steps)
                  THEN Verdict("ACCEPT", [v |-> "ACCEPT", tid |-> T.id, n |-> l, seen |-> seen'])
                  ELSE NoVerdict
       ELSE /\ UNCHANGED mvars /\ UNCHANGED seen
            /\ Verdict("STUCK", [v |-> "STUCK", tid |-> T.id, l |-> l, ev |-> ev])

\* After a FOREIGN verdict (the first disagreement concerns clauses of other properties only) the comparison goes
\* on against the specification's own state - nothing is adopted - and the first later step at which a clause OWNED
\* by Prop (or one of its monitors) fails is a MISMATCH: the implementation did not do what Prop requires of that
\* history, whatever went wrong first.  When the recorded events stop fitting the specification's control state
\* (the code called a state function the specification did not, ...) the trace ends as FOREIGN.
Diverged ==
    LET ev == T.steps[l].in
        o  == T.steps[l].out
        m1 == MonStep(ev, o)
    IN
    /\ mon' = m1 /\ UNCHANGED seen
    /\ IF ev.e = "raised"
       THEN /\ UNCHANGED mvars
            /\ Verdict("MISMATCH", [v |-> "MISMATCH", tid |-> T.id, l |-> l, clauses |-> {"raised"},
                                      br |-> <<>>, exp |-> [raised |-> FALSE], obs |-> o])
       ELSE IF EvEnabled(ev)
       THEN /\ EvNext(ev)
            /\ LET d == IF "cb" \in DOMAIN o THEN Diffs(Obs', o, eng \/ eng') ELSE {}
                   b == ToSet(br')
                   mine == {c \in d : Prop = "ALL" \/ Prop \in Owner(c, b)}
               IN IF mine # {}
                  THEN Verdict("MISMATCH", [v |-> "MISMATCH", tid |-> T.id, l |-> l, clauses |-> mine, br |-> br',
                                            exp |-> Obs', obs |-> o, after_foreign |-> TRUE])
                  ELSE IF m1.bad # "" /\ (Prop = "ALL" \/ Prop \in MonOwner(m1.bad))
                  THEN Verdict("MISMATCH", [v |-> "MISMATCH", tid |-> T.id, l |-> l, clauses |-> {m1.bad},
                                            br |-> br', exp |-> Obs', obs |-> o, after_foreign |-> TRUE])
                  ELSE NoVerdict
       ELSE /\ UNCHANGED mvars
            /\ Verdict("FOREIGNEND", [v |-> "FOREIGN", tid |-> T.id, l |-> l, clauses |-> {"control"}, br |-> <<>>])

TStep ==
    /\ l <= Len(T.steps)
    /\ \/ vkind = "" /\ Lockstep
       \/ vkind = "FOREIGN" /\ Diverged
    /\ l' = l + 1 /\ UNCHANGED tid

TSpec == TInit /\ [][TStep]_tvars
Report == vnew => PrintT("V|" \o verdict)

\* state-invariant forms of the properties, evaluated on every state of every implementation trace
TI_NonNegative == C03_NonNegative
TI_WithinDuration == C02_WithinDuration
=============================================================================
