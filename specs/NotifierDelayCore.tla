---------------------------- MODULE NotifierDelayCore ----------------------------
(***************************************************************************)
(* robotpy_ext.misc.NotifierDelay: keeps a loop on the time grid           *)
(* t0 + k*P of the FPGA clock.  Time in microseconds.                      *)
(* Actions: New(P) (constructor), Body(b) (the loop body takes b us),      *)
(* Wait (wait()), Free (free() / leaving the with-block).                  *)
(* Dev "drift": the next alarm is set relative to the return time instead  *)
(* of the previous alarm (the classic drifting loop).                      *)
(***************************************************************************)
EXTENDS Integers, Sequences, TLC
\* (the @type comments are for Apalache, which checks the inductive invariant of ND_Ind.tla; TLC ignores them)
CONSTANTS
    \* @type: Set(Str);
    Dev
VARIABLES
    \* @type: Int;
    now,
    \* @type: Bool;
    made,
    \* @type: Int;
    t0,
    \* @type: Int;
    P,
    \* @type: Int;
    k,
    \* @type: Int;
    expiry,
    \* @type: Bool;
    freed,
    \* @type: Int;
    lastRet,
    \* @type: Bool;
    err
nvars == <<now, made, t0, P, k, expiry, freed, lastRet, err>>

Init == now = 0 /\ made = FALSE /\ t0 = 0 /\ P = 0 /\ k = 0 /\ expiry = 0 /\ freed = FALSE /\ lastRet = 0 /\ err = FALSE
Max(a, b) == IF a > b THEN a ELSE b

New(p) ==
    /\ ~made
    /\ IF p < 1000
       THEN err' = TRUE /\ UNCHANGED <<now, made, t0, P, k, expiry, freed, lastRet>>      \* ValueError
       ELSE /\ made' = TRUE /\ t0' = now /\ P' = p /\ k' = 0 /\ expiry' = now + p /\ freed' = FALSE
            /\ lastRet' = now /\ err' = FALSE /\ UNCHANGED now
Body(b) == now' = now + b /\ err' = FALSE /\ UNCHANGED <<made, t0, P, k, expiry, freed, lastRet>>
Wait ==
    /\ made
    /\ IF freed
       THEN lastRet' = now /\ err' = FALSE /\ UNCHANGED <<now, made, t0, P, k, expiry, freed>>   \* returns immediately
       ELSE /\ now' = Max(now, expiry) /\ lastRet' = now' /\ k' = k + 1
            /\ expiry' = IF "drift" \in Dev THEN now' + P ELSE expiry + P
            /\ err' = FALSE /\ UNCHANGED <<made, t0, P, freed>>
Free == made /\ freed' = TRUE /\ err' = FALSE /\ UNCHANGED <<now, made, t0, P, k, expiry, lastRet>>
\* entering the with-block (possibly long after construction) changes nothing: the grid is anchored at construction
Enter == made /\ err' = FALSE /\ UNCHANGED <<now, made, t0, P, k, expiry, freed, lastRet>>

Live == IF made /\ ~freed THEN 1 ELSE 0      \* HAL notifiers held
NextAlarm == IF made /\ ~freed THEN expiry ELSE -1

(* C16 *)
\* the alarm is always on the grid
C16_OnGrid == made => expiry = t0 + (k + 1) * P
\* the k-th wait() never returns before t0 + k*P ...
C16_NotEarly == (made /\ k >= 1) => lastRet >= t0 + k * P \/ freed
\* ... and returns exactly then whenever the body had finished by then; otherwise at once
C16_ExactWhenOnTime ==
    [][(made /\ ~freed /\ k' = k + 1) => lastRet' = Max(now, t0 + (k + 1) * P)]_nvars
C16_FreeReleases == (made /\ freed) => Live = 0
C16_WaitAfterFreeImmediate == [][(made /\ freed /\ lastRet' # lastRet) => now' = now]_nvars
=============================================================================
