---------------------------- MODULE Sim_MagicRobot ----------------------------
(* Behaviours of the MagicRobot specification as environment scripts for the real loop. *)
EXTENDS MC_MagicRobot, Json

CONSTANTS SimDepth, Weight
VARIABLES hist, fms0

\* random walks pick successors uniformly: make returning normally / waking up more likely than faults and
\* driver-station changes by offering them several times (the extra field x is ignored by the spec)
Likely(ev) == (ev.e = "cb" /\ ~ev.raise /\ ev.adv = 0) \/ ev.e = "wake"
SimInputs == Inputs \cup {[x |-> i] @@ ev : ev \in {e \in Inputs : Likely(e)}, i \in 1..Weight}

SimInit == MCInit /\ hist = <<>> /\ fms0 = fms
SimNext ==
    IF SilentEnabled THEN Silent /\ UNCHANGED <<nchg, hist, fms0>>
    ELSE \E ev \in SimInputs : /\ EvNext(ev)
                            /\ nchg' = nchg + (IF ev.e \in {"ds", "fms", "sel", "end", "choose"} THEN 1 ELSE 0)
                            /\ hist' = Append(hist, ev) /\ UNCHANGED fms0
SimSpec == SimInit /\ [][SimNext]_<<rvars, nchg, hist, fms0>>
SimStop == Len(hist) <= SimDepth
Emit == (Len(hist) = SimDepth \/ pc \in {"crashed", "exited"})
           => PrintT("S|" \o ToJson([shape |-> sh, fms |-> fms0, events |-> hist]))
=============================================================================
