---------------------------- MODULE MC_Controls ----------------------------
EXTENDS Controls
CONSTANTS Kinds, Periods, Steps, MaxNow, MaxLevel
Shapes == {[kind |-> k, period |-> p, bypass |-> 30, timeout |-> 20000] : k \in Kinds, p \in Periods}
MCInit == \E s \in Shapes : (s.kind # "toggle" => s.period > 0) /\ Init(s, 0)
Inputs ==
    {[e |-> "tick", d |-> d] : d \in Steps}
    \cup (CASE sh.kind = "toggle" -> {[e |-> "sample", level |-> lv, acc |-> a] : lv \in BOOLEAN, a \in {"get", "on", "off", "bool"}}
            [] sh.kind = "bd" -> {[e |-> "bget", level |-> lv] : lv \in BOOLEAN} \cup {[e |-> "bdset", p |-> p] : p \in {1, 4}}
            [] sh.kind = "pf" -> {[e |-> "rec", lvl |-> x] : x \in {20, 30, 40}}
            [] sh.kind = "wd" -> {[e |-> "reset"], [e |-> "expired"], [e |-> "epoch"], [e |-> "print"],
                                  [e |-> "settimeout", t |-> 31250], [e |-> "enable"], [e |-> "disable"], [e |-> "gettime"]})
MCNext == \E ev \in Inputs : EvNext(ev)
MCSpec == MCInit /\ [][MCNext]_cvars
Bound == now <= MaxNow /\ TLCGet("level") <= MaxLevel /\ wdEpochs <= 2
EnabledAgrees == \A ev \in Inputs : EvEnabled(ev) = ENABLED EvNext(ev)
Probe_TwoFlips == ~(flips >= 2)
Probe_TwoTrues == ~(trues >= 2)
Probe_TwoLow == ~(lowPasses >= 2)
Probe_TwoPrints == ~(prints >= 2)
=============================================================================
