---------------------------- MODULE Trace_NotifierDelay ----------------------------
EXTENDS NotifierDelay, TraceKit
CONSTANTS Prop
tvars == <<nvars, kvars>>
TInit == KInit /\ Init
Diffs(ev, o) ==
    (IF o.t # now' THEN {"time"} ELSE {})
    \cup (IF o.n # Live' THEN {"handles"} ELSE {})
    \cup (IF o.alarm # NextAlarm' THEN {"alarm"} ELSE {})
    \cup (IF o.err # err' THEN {"error"} ELSE {})
TStep ==
    /\ vkind = "" /\ l <= Len(Tr.steps) /\ l' = l + 1 /\ UNCHANGED tid
    /\ LET ev == Tr.steps[l].in  o == Tr.steps[l].out IN
       IF ev.e = "raised"      \* the code under test raised where no exception is specified
       THEN /\ UNCHANGED nvars /\ UNCHANGED seen
            /\ Verdict("MISMATCH", [v |-> "MISMATCH", tid |-> Tr.id, l |-> l, clauses |-> {"raised"}, br |-> <<>>,
                                    exp |-> [raised |-> FALSE], obs |-> o])
       ELSE IF ~EvEnabled(ev)
       THEN UNCHANGED nvars /\ UNCHANGED seen /\ Verdict("STUCK", [v |-> "STUCK", tid |-> Tr.id, l |-> l, ev |-> ev])
       ELSE /\ EvNext(ev)
            /\ seen' = seen \cup {ev.e} \cup (IF ev.e = "wait" /\ ~freed /\ now > expiry THEN {"overrun"} ELSE {})
                            \cup (IF ev.e = "wait" /\ freed THEN {"wait_after_free"} ELSE {})
            /\ LET d == Diffs(ev, o) IN
               IF d # {} THEN Verdict("MISMATCH", [v |-> "MISMATCH", tid |-> Tr.id, l |-> l, clauses |-> d, br |-> <<>>,
                                                   exp |-> [t |-> now', n |-> Live', alarm |-> NextAlarm', err |-> err'], obs |-> o])
               ELSE IF l = Len(Tr.steps) THEN Verdict("ACCEPT", [v |-> "ACCEPT", tid |-> Tr.id, n |-> l, seen |-> seen'])
               ELSE NoVerdict
TSpec == TInit /\ [][TStep]_tvars
=============================================================================
