---------------------------- MODULE ND_Ind ----------------------------
(***************************************************************************)
(* Unbounded argument for C16 at the model level, for Apalache:            *)
(*   apalache-mc check --cinit=ConstInit --init=Init    --inv=IndInv --length=0 ND_Ind.tla               *)
(*   apalache-mc check --cinit=ConstInit --init=IndInit --inv=IndInv --length=1 --next=INext ND_Ind.tla  *)
(* IndInv holds initially and is preserved by every action for ANY period  *)
(* of 1 ms .. 100 ms, any body duration up to 10 s and any number of       *)
(* waits: the alarm stays on the grid t0 + (k+1)*P and the k-th wait()     *)
(* never returns before t0 + k*P.                                          *)
(***************************************************************************)
EXTENDS NotifierDelayCore
ConstInit == Dev = {}
INext == \/ \E p \in 1000..100000 : New(p)
         \/ \E b \in 0..10000000 : Body(b)
         \/ Wait \/ Free \/ Enter
IndInv ==
    /\ now >= 0 /\ k >= 0
    /\ made => /\ P >= 1000
               /\ expiry = t0 + (k + 1) * P
               /\ (k >= 1 => (lastRet >= t0 + k * P \/ freed))
               /\ t0 >= 0
IndInit ==
    /\ now \in 0..100000000 /\ made \in BOOLEAN /\ t0 \in 0..100000000 /\ P \in 0..100000 /\ k \in 0..1000
    /\ expiry \in 0..300000000 /\ freed \in BOOLEAN /\ lastRet \in 0..300000000 /\ err \in BOOLEAN
    /\ IndInv
=============================================================================
