---------------------------- MODULE SelectorDisc ----------------------------
(***************************************************************************)
(* AutonomousModeSelector start-up: discovery of autonomous modes (C14).   *)
(* A behaviour is one package layout + FMS flag (a "case"); TLC enumerates *)
(* the bounded universe and prints each case with the outcome the property *)
(* requires; every case is written to disk as a real package and loaded by *)
(* the real selector.                                                      *)
(*                                                                         *)
(* case = [pkg : "present" | "missing", fms : BOOLEAN,                     *)
(*         mods : sequence of [imp : "ok" | "fails",                       *)
(*                             classes : sequence of [name, dis, def, ctor]]] *)
(* name: MODE_NAME or "none" (class without MODE_NAME); dis: DISABLED;     *)
(* def: DEFAULT; ctor: "ok" | "fails".                                     *)
(***************************************************************************)
EXTENDS Integers, Sequences, FiniteSets, TLC, Json

CONSTANTS ModeNames, MaxMods, MaxClasses, MaxTotal

ClassSpecs == [name : ModeNames \cup {"none"}, dis : BOOLEAN, def : BOOLEAN, ctor : {"ok", "fails"}]
\* a class without MODE_NAME is just a class: flags irrelevant, keep one representative
Class == {c \in ClassSpecs : c.name = "none" => (~c.dis /\ ~c.def /\ c.ctor = "ok")}
RECURSIVE SeqsUpTo(_, _)
SeqsUpTo(S, k) == IF k = 0 THEN {<<>>}
                  ELSE LET shorter == SeqsUpTo(S, k - 1) IN
                       shorter \cup {Append(s, m) : s \in {x \in shorter : Len(x) = k - 1}, m \in S}
Mod == {[imp |-> i, classes |-> cs] : i \in {"ok", "fails"}, cs \in SeqsUpTo(Class, MaxClasses)}
ModOK == {m \in Mod : m.imp = "ok" \/ m.classes = <<>>}      \* what a module that fails to import contains is irrelevant
RECURSIVE NClasses(_)
NClasses(ms) == IF ms = <<>> THEN 0 ELSE Len(Head(ms).classes) + NClasses(Tail(ms))
Layouts == {ms \in SeqsUpTo(ModOK, MaxMods) : NClasses(ms) <= MaxTotal}

VARIABLES case
Cases == {[pkg |-> "present", fms |-> f, mods |-> ms] : f \in BOOLEAN, ms \in Layouts}
         \cup {[pkg |-> "missing", fms |-> f, mods |-> <<>>] : f \in BOOLEAN}
Init == case \in Cases
Spec == Init /\ [][UNCHANGED case]_case

(* ---- what start-up must do ---- *)
AllClasses == {<<i, j>> \in (1..MaxMods) \X (1..MaxClasses) :
                  i <= Len(case.mods) /\ case.mods[i].imp = "ok" /\ j <= Len(case.mods[i].classes)}
C(p) == case.mods[p[1]].classes[p[2]]
\* classes that define MODE_NAME and are not DISABLED get instantiated
Candidates == {p \in AllClasses : C(p).name # "none" /\ ~C(p).dis}
Healthy == {p \in Candidates : C(p).ctor = "ok"}
ImportFails == \E i \in 1..Len(case.mods) : case.mods[i].imp = "fails"
CtorFails == \E p \in Candidates : C(p).ctor = "fails"
Duplicates == \E p, q \in Healthy : p # q /\ C(p).name = C(q).name
Defaults == {p \in Healthy : C(p).def}
SeveralDefaults == Cardinality(Defaults) > 1
Faulty == ImportFails \/ CtorFails \/ Duplicates \/ SeveralDefaults

Expected ==
    IF Faulty /\ ~case.fms THEN [raises |-> TRUE]
    ELSE [raises |-> FALSE,
          \* every healthy mode is offered (one option each) plus "None"
          noptions |-> Cardinality(Healthy) + 1,
          names |-> {C(p).name : p \in Healthy},             \* plain MODE_NAMEs that must be among the options
          \* constructor calls: exactly once for every candidate (also the ones whose constructor raises), none for others
          constructed |-> {[m |-> p[1], c |-> p[2]] : p \in Candidates},
          \* the preselected option is (the instance of) a class marked DEFAULT - any of them - else "None"
          preselected |-> {[m |-> p[1], c |-> p[2]] : p \in Defaults}]

(* C14 (discovery part) as laws *)
\* without a fault the outcome does not depend on the FMS flag
C14_FmsOnlyMattersWhenFaulty == ~Faulty => ~Expected.raises
\* with the FMS attached nothing raises and every healthy mode is offered
C14_FmsTolerates == case.fms => (~Expected.raises /\ Expected.noptions = Cardinality(Healthy) + 1)
\* disabled classes and classes without MODE_NAME are never instantiated
C14_OnlyCandidatesConstructed ==
    ~Expected.raises => \A p \in AllClasses : ([m |-> p[1], c |-> p[2]] \in Expected.constructed) <=> (C(p).name # "none" /\ ~C(p).dis)

Emit == PrintT("S|" \o ToJson([case |-> case, exp |-> Expected]))
=============================================================================
