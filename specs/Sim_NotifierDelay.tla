---------------------------- MODULE Sim_NotifierDelay ----------------------------
EXTENDS MC_NotifierDelay, Json
CONSTANTS SimDepth
VARIABLES hist
SimInputs == Inputs \cup {[x |-> i, e |-> "wait"] : i \in 1..6}
SimNext == \E ev \in SimInputs : EvNext(ev) /\ hist' = Append(hist, ev)
SimSpec == Init /\ hist = <<>> /\ [][SimNext]_<<nvars, hist>>
Emit == (Len(hist) = SimDepth) => PrintT("S|" \o ToJson([shape |-> [none |-> 0], events |-> hist]))
SimStop == Len(hist) <= SimDepth
=============================================================================
