---------------------------- MODULE SharpIR ----------------------------
(***************************************************************************)
(* robotpy_ext.common_drivers.distance_sensors (Sharp IR 2Y0A02 / 2Y0A21 / *)
(* 2Y0A41) and their simulation helpers.  Distances in micro-centimetres.  *)
(*                                                                         *)
(* What is specified here is the case structure                            *)
(*      Reading(v) = Clamp(Law(Max(v, floor)))                             *)
(* and its consequences (bounded, non-increasing in the voltage, the sim   *)
(* helper inverts it).  TLA+ has no real exponentiation: Law enters as a   *)
(* table LAW[model][code] over the 4096 codes of the 12-bit 0-5 V input,   *)
(* computed outside TLC by a 50-digit decimal evaluation of A * v^B        *)
(* (part of the trusted base, see DESIGN.md C17).  OBS[model][code] are    *)
(* the readings of the real driver for the same codes; SPECIAL and SIM the *)
(* readings for out-of-range voltages and through the simulation helper.   *)
(* A behaviour is one case; TLC enumerates all of them.                    *)
(***************************************************************************)
EXTENDS Integers, Sequences, TLC, Json, IOUtils

Data == JsonDeserialize(IOEnv.IR_DATA)
\* the three drivers, each on an on-board and on an MXP analog channel, and the 2Y0A41 under its legacy public name
Models == {"2Y0A02", "2Y0A21", "2Y0A41", "2Y0A02@hi", "2Y0A21@hi", "2Y0A41@hi", "2Y0A41@legacy"}
MinD(m) == Data.range[m][1]
MaxD(m) == Data.range[m][2]
Law(m, k) == Data.law[m][k + 1]          \* code k in 0..4095 (code 0: the voltage floor)
Obs(m, k) == Data.obs[m][k + 1]
Clamp(m, d) == IF d > MaxD(m) THEN MaxD(m) ELSE IF d < MinD(m) THEN MinD(m) ELSE d
Near(a, b) == a - b <= 1 /\ b - a <= 1

VARIABLES case
Cases == {[k |-> "code", m |-> m, c |-> c] : m \in Models, c \in 0..4095}
         \cup {[k |-> "special", m |-> m, i |-> i] : m \in Models, i \in 1..Len(Data.special["2Y0A02"])}
         \cup {[k |-> "sim", m |-> m, i |-> i] : m \in Models, i \in 1..Len(Data.sim["2Y0A02"])}
Init == case \in Cases
Spec == Init /\ [][UNCHANGED case]_case

IsCode == case.k = "code"
\* the oracle itself is a strictly decreasing law (a sanity check of the trusted table)
LawDecreasing == (IsCode /\ case.c < 4095) => Law(case.m, case.c + 1) <= Law(case.m, case.c)
\* C17: finite, inside the documented range
C17_InRange == IsCode => (Obs(case.m, case.c) >= MinD(case.m) /\ Obs(case.m, case.c) <= MaxD(case.m))
\* C17: never increases as the voltage increases
C17_Monotone == (IsCode /\ case.c < 4095) => Obs(case.m, case.c + 1) <= Obs(case.m, case.c)
\* C17: follows the power law inside the range, clamped outside
C17_FollowsLaw == IsCode => Near(Obs(case.m, case.c), Clamp(case.m, Law(case.m, case.c)))
\* C17: zero, negative, tiny voltages read the maximum; huge and infinite ones the minimum
C17_Special == (case.k = "special") =>
                  LET s == Data.special[case.m][case.i] IN
                  s.finite /\ s.obs = (IF s.low THEN MaxD(case.m) ELSE MinD(case.m))
\* C17: the simulation helper is the inverse: after setDistance(d) the sensor reads Clamp(d), the helper reports d
C17_SimInverse == (case.k = "sim") =>
                  LET s == Data.sim[case.m][case.i] IN
                  s.helper_ok /\ Near(s.obs, Clamp(case.m, s.d)) 
=============================================================================
