#!/usr/bin/env python3
"""Check that a behaviour-preserving refactoring raises no alarm.

usage: tools/try_neutral.py <patch.diff> Cxx [Cyy ...]
Scratch worktree of /repo HEAD, apply, run the 43 tests, run each quick check with VERIF_REPO=<scratch>; all must exit 0.
"""
import json
import os
import shutil
import subprocess
import sys
import tempfile

V = os.path.dirname(os.path.dirname(os.path.abspath(__file__)))


def sh(cmd, cwd=None, env=None, timeout=7200):
    p = subprocess.run(cmd, shell=True, cwd=cwd, env=env, stdout=subprocess.PIPE, stderr=subprocess.STDOUT, text=True, timeout=timeout)
    return p.returncode, p.stdout


def main():
    patch = os.path.abspath(sys.argv[1])
    props = sys.argv[2:]
    wt = tempfile.mkdtemp(prefix="tryneutral_", dir="/tmp")
    os.rmdir(wt)
    res = {"patch": patch}
    try:
        rc, out = sh("git -C /repo worktree add -q --detach %s HEAD" % wt)
        assert rc == 0, out
        rc, out = sh("git apply %s" % patch, cwd=wt)
        res["applies"] = rc == 0
        if rc:
            res["apply_error"] = out[-400:]
            return res
        rc, out = sh("/venv/bin/python -m pytest -q -p no:cacheprovider tests 2>&1 | tail -1", cwd=wt)
        res["tests"] = out.strip()
        for pr in props:
            rc, out = sh("./check %s quick" % pr, cwd=V, env=dict(os.environ, VERIF_REPO=wt))
            lines = [ln[:500] for ln in out.splitlines() if ln.startswith(("VIOLATION", "MACHINERY", "  "))][:4]
            res[pr] = {"rc": rc, "lines": lines}
        sh("git checkout -- evidence", cwd=V)
    finally:
        sh("git -C /repo worktree remove --force %s" % wt)
        shutil.rmtree(wt, ignore_errors=True)
    return res


if __name__ == "__main__":
    r = main()
    print(json.dumps(r, indent=1))
    sys.exit(0 if all(v.get("rc") == 0 for k, v in r.items() if isinstance(v, dict)) and r.get("applies") else 1)
