#!/usr/bin/env python3
"""Re-run every stored breaking change (seeded/*/patch.diff) against its property's quick check and report which are
caught.  Not a registered check: it takes a long time (one quick check per change).  usage: tools/selftest.py [Cxx ...]"""
import json
import os
import subprocess
import sys

V = os.path.dirname(os.path.dirname(os.path.abspath(__file__)))


def main():
    only = set(sys.argv[1:])
    rows = []
    for d in sorted(os.listdir(os.path.join(V, "seeded"))):
        mp = os.path.join(V, "seeded", d, "meta.json")
        if not os.path.exists(mp):
            continue
        prop = json.load(open(mp))["property"]
        if only and prop not in only:
            continue
        p = subprocess.run([sys.executable, os.path.join(V, "tools", "try_seed.py"), prop,
                            os.path.join(V, "seeded", d, "patch.diff"), os.path.join(V, "seeded", d, "demo.py")],
                           stdout=subprocess.PIPE, stderr=subprocess.STDOUT, text=True)
        try:
            r = json.loads(p.stdout[p.stdout.index("{"):])
            rc = r.get("check_" + prop, {}).get("rc")
            ok = r.get("demo_clean_rc") == 0 and r.get("demo_mutant_rc") == 1 and "43 passed" in (r.get("tests") or "")
        except Exception:
            rc, ok = None, False
        rows.append((d, prop, ok, rc))
        print("%-12s %s confirmed=%s check_exit=%s %s" % (d, prop, ok, rc, "CAUGHT" if rc == 1 else "MISSED"), flush=True)
    missed = [r for r in rows if r[3] != 1]
    print("%d changes, %d caught, %d missed" % (len(rows), len(rows) - len(missed), len(missed)))
    return 1 if missed else 0


if __name__ == "__main__":
    sys.exit(main())
