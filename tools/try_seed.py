#!/usr/bin/env python3
"""Evaluate one independently written breaking change against the checks.

usage: tools/try_seed.py <prop> <patch.diff> <demo.py> [--also Cxx ...] [--tier quick]

Makes a scratch git worktree of /repo HEAD (outside /repo and /verif), confirms the change: the 43 tests
still pass with it, the demo exits 0 without it and 1 with it; then runs ./check <prop> (and --also) with
VERIF_REPO pointing at the scratch tree.  /repo itself is never modified.  Prints a JSON summary.
"""
import json
import os
import subprocess
import sys
import tempfile
import shutil

V = os.path.dirname(os.path.dirname(os.path.abspath(__file__)))


def sh(cmd, cwd=None, env=None, timeout=3600):
    p = subprocess.run(cmd, shell=True, cwd=cwd, env=env, stdout=subprocess.PIPE, stderr=subprocess.STDOUT, text=True,
                       timeout=timeout)
    return p.returncode, p.stdout


def main():
    a = sys.argv[1:]
    prop, patch, demo = a[0], os.path.abspath(a[1]), os.path.abspath(a[2])
    also = []
    tier = "quick"
    i = 3
    while i < len(a):
        if a[i] == "--also":
            i += 1
            while i < len(a) and not a[i].startswith("--"):
                also.append(a[i])
                i += 1
        elif a[i] == "--tier":
            tier = a[i + 1]
            i += 2
        else:
            i += 1
    wt = tempfile.mkdtemp(prefix="tryseed_", dir="/tmp")
    os.rmdir(wt)
    res = {"property": prop, "patch": patch}
    try:
        rc, out = sh("git -C /repo worktree add -q --detach %s HEAD" % wt)
        assert rc == 0, out
        env = dict(os.environ, PYTHONPATH=wt, PYTHONDONTWRITEBYTECODE="1")
        rc, out = sh("/venv/bin/python %s" % demo, cwd=wt, env=env, timeout=600)
        res["demo_clean_rc"] = rc
        rc, out = sh("git apply %s" % patch, cwd=wt)
        res["applies"] = rc == 0
        if rc != 0:
            res["apply_error"] = out[-500:]
            return res
        rc, out = sh("/venv/bin/python -m pytest -q -p no:cacheprovider tests 2>&1 | tail -2", cwd=wt, timeout=900)
        res["tests"] = out.strip().splitlines()[-1] if out.strip() else ""
        rc, out = sh("/venv/bin/python %s" % demo, cwd=wt, env=env, timeout=600)
        res["demo_mutant_rc"] = rc
        for pr in [prop] + also:
            env2 = dict(os.environ, VERIF_REPO=wt)
            rc, out = sh("./check %s %s" % (pr, tier), cwd=V, env=env2, timeout=7200)
            lines = [ln for ln in out.splitlines() if ln.startswith("VIOLATION") or ln.startswith("MACHINERY") or ln.startswith("  ")]
            res["check_%s" % pr] = {"rc": rc, "lines": [ln[:400] for ln in lines[:4]]}
        # the evidence files were rewritten by runs against the mutant: restore the committed ones
        sh("git checkout -- evidence", cwd=V)
    finally:
        sh("git -C /repo worktree remove --force %s" % wt)
        shutil.rmtree(wt, ignore_errors=True)
    return res


if __name__ == "__main__":
    print(json.dumps(main(), indent=1))
