#!/bin/sh
# tools/thorough_all.sh - every check's thorough tier once on the unchanged tree; one line per run
cd "$(dirname "$0")/.."
for p in C01 C02 C03 C04 C05 C06 C07 C08 C09 C10 C11 C12 C13 C14 C15 C16 C17 C18 C19 C20; do
  s=$(date +%s)
  ./check $p thorough > /tmp/thorough_$$.log 2>&1; rc=$?
  echo "$p rc=$rc $(( $(date +%s)-s ))s $(tail -1 /tmp/thorough_$$.log | cut -c1-200) $(grep -m1 'MACHINERY\|VIOLATION' /tmp/thorough_$$.log | cut -c1-300)"
done
rm -f /tmp/thorough_$$.log
