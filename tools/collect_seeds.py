#!/usr/bin/env python3
"""Copy independently written breaking changes into /verif/seeded/<id>/ with meta.json, and write seeded/README.md.

usage: tools/collect_seeds.py <round> <seed_dir> <first_results_dir> <final_results_dir>
"""
import json
import os
import shutil
import sys

V = os.path.dirname(os.path.dirname(os.path.abspath(__file__)))


def load(p):
    try:
        return json.load(open(p))
    except Exception:
        return None


def main():
    rnd, sd, r1, r2 = sys.argv[1:5]
    for prop in ["C%02d" % i for i in range(1, 21)]:
        for n in (1, 2, 3):
            src = os.path.join(sd, prop, "seed_out")
            if not os.path.exists(os.path.join(src, "mut%d.diff" % n)):
                continue
            dst = os.path.join(V, "seeded", "%s-r%s-%d" % (prop, rnd, n))
            os.makedirs(dst, exist_ok=True)
            shutil.copy(os.path.join(src, "mut%d.diff" % n), os.path.join(dst, "patch.diff"))
            shutil.copy(os.path.join(src, "mut%d_demo.py" % n), os.path.join(dst, "demo.py"))
            if os.path.exists(os.path.join(src, "mut%d.as_written.diff" % n)):
                shutil.copy(os.path.join(src, "mut%d.as_written.diff" % n), os.path.join(dst, "patch.as_written.diff"))
            txt = open(os.path.join(src, "mut%d.txt" % n)).read() if os.path.exists(os.path.join(src, "mut%d.txt" % n)) else ""
            first = load(os.path.join(r1, "%s.mut%d.json" % (prop, n)))
            final = load(os.path.join(r2, "%s.mut%d.json" % (prop, n))) or first
            def rc(res):
                if not res:
                    return None
                return {k[6:]: v["rc"] for k, v in res.items() if k.startswith("check_")}
            meta = {
                "property": prop,
                "source": "sub-agent given only the property text and a scratch worktree (round %s)" % rnd,
                "what_it_breaks_and_needs": txt.strip(),
                "confirmed": {
                    "existing_tests_with_patch": (final or {}).get("tests"),
                    "demo_exit_without_patch": (final or {}).get("demo_clean_rc"),
                    "demo_exit_with_patch": (final or {}).get("demo_mutant_rc"),
                },
                "ran": "tools/try_seed.py %s patch.diff demo.py  (scratch worktree of /repo HEAD, VERIF_REPO=<scratch> ./check <id> quick)" % prop,
                "quick_check_exit_codes_when_first_tried": rc(first),
                "quick_check_exit_codes_now": rc(final),
                "caught_by": sorted(k for k, v in (rc(final) or {}).items() if v == 1),
                "first_lines": {k[6:]: v["lines"][:2] for k, v in (final or {}).items() if k.startswith("check_")},
            }
            json.dump(meta, open(os.path.join(dst, "meta.json"), "w"), indent=1)
    rows = []
    for d in sorted(os.listdir(os.path.join(V, "seeded"))):
        mp = os.path.join(V, "seeded", d, "meta.json")
        if not os.path.exists(mp):
            continue
        m = json.load(open(mp))
        first = m.get("quick_check_exit_codes_when_first_tried") or {}
        now = m.get("quick_check_exit_codes_now") or {}
        summary = (m["what_it_breaks_and_needs"].splitlines() or [""])[0][:110]
        rows.append("| %s | %s | %s | %s | %s |" % (d, m["property"], summary.replace("|", "/"),
                                                "caught" if first.get(m["property"]) == 1 else "MISSED" if first else "-",
                                                ", ".join(m.get("caught_by") or []) or "MISSED"))
    with open(os.path.join(V, "seeded", "README.md"), "w") as f:
        f.write("# Independently written breaking changes\n\n"
                "Each directory holds `patch.diff` (never committed to /repo), `demo.py` (exit 0 = property holds, 1 = violated) and\n"
                "`meta.json`. The authors (sub-agents) saw only the property text and a scratch worktree. Every change keeps the 43 tests green.\n"
                "`first tried` is the owning quick check's result before any strengthening prompted by that change; `caught by now` lists the\n"
                "quick checks that exit 1 on it today (`tools/try_seed.py`).\n\n"
                "| seed | property | first line of the author's description | first tried | caught by now |\n|---|---|---|---|---|\n")
        f.write("\n".join(rows) + "\n")
    print(len(rows), "seeds")


if __name__ == "__main__":
    main()
