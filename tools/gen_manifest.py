#!/usr/bin/env python3
"""Regenerate MANIFEST.json from the table below (keeps it valid against the schema)."""
import json
import os

V = os.path.dirname(os.path.dirname(os.path.abspath(__file__)))
props = [json.loads(l) for l in open(os.path.join(V, "properties.jsonl"))]

SM_NOTE = ("Trusted: TLC; the HAL simulator clock (exact on the 1/64 s grid) and in-process NetworkTables; the recorder in "
           "harness/drivers/sm_driver.py (public API and user callbacks only). Bounds: exhaustive runs are bounded in "
           "behaviour length and machine time (evidence.tlc_runs); a state function performs up to 2 (exhaustive) / 3 (simulated) / 4 (random) in-state "
           "actions; exhaustive exploration lets neither the default state's function request a transition nor a state function "
           "select a state after the machine stopped under it (the random histories do both). The random histories also chain next_state_now() up to 13 frames deep inside one iteration and write negative durations to the duration topics (exhaustive runs: durations >= 0, nesting as bounded by the behaviour length). State functions may raise: caught exceptions are judged like any other step; once an exception has "
           "left execute() the behaviour is still compared with the specification step by step but no longer judged by the "
           "invariants (the properties do not quantify over raising state functions).")
CLAIMED = {
    "C01": dict(cat="model_checking", ref="DESIGN.md 4.1, 5/C01", note=SM_NOTE,
                text="TLC checks the C01 invariants/action properties of specs/MagicSM.tla exhaustively on six machine shapes (bounded), shows they have teeth (a 'no_deactivate' mutation and the pre-fix 'nested_consumes_request' behaviour of the spec are caught) and are not vacuous (probes); the real StateMachine is then bound to the spec in both directions: random call/clock histories on random shapes recorded from the code are accepted by TLC against the spec (clauses: which and how many state functions ran per iteration), and TLC-simulated spec behaviours are replayed on the code.",
                tech="TLA+ spec MagicSM + TLC exhaustive invariants; TLC batch trace validation of recorded executions; TLC -simulate behaviours replayed on the code"),
    "C02": dict(cat="model_checking", ref="DESIGN.md 4.1, 5/C02", note=SM_NOTE,
                text="Integer-tick TLA+ model of timed states (expiry test first, successor starts at predecessor's expiry, cycle restarts at the expiry instant, duration tunable read at entry); TLC checks the C02 invariants exhaustively with clock steps landing before/on/after expiries, and validates recorded executions (state names on expiry branches, state_tm, durations written over NetworkTables) and replays simulated behaviours; exact comparison because the simulated FPGA clock is exact on the 1/64 s grid.",
                tech="TLA+ spec MagicSM + TLC exhaustive invariants; TLC batch trace validation; simulated behaviours replayed"),
    "C03": dict(cat="model_checking", ref="DESIGN.md 4.1, 5/C03", note=SM_NOTE,
                text="As C01/C02 for the arguments: generated state functions declare every one of the 16 ordered subsets of (tm, state_tm, initial_call) and record them by name; TLC compares each declared argument with the spec's call record at every call of every validated trace; non-negativity is an invariant of the spec (exhaustive, bounded) and a spec-free monitor on traces.",
                tech="TLA+ spec MagicSM + TLC exhaustive invariants; generated signatures; TLC batch trace validation; simulated behaviours replayed"),
    "C04": dict(cat="model_checking", ref="DESIGN.md 4.1, 5/C04", note=SM_NOTE,
                text="TLC checks 'stopped means reset', 'every stop passes through done()', 'restart at tm=0' and 'running means is_executing' exhaustively (bounded) on the spec, with teeth shown by the two pre-fix deviations; done() invocations, is_executing and current_state (python attribute and NetworkTables topic) of the real code are validated step by step against the spec on random histories and replayed spec behaviours.",
                tech="TLA+ spec MagicSM + TLC exhaustive invariants; TLC batch trace validation; simulated behaviours replayed"),
    "C13": dict(cat="model_checking", ref="DESIGN.md 4.2, 5/C13", note=SM_NOTE + " on_iteration() before any on_enable() is outside the explored space.",
                text="The autonomous variant is the same spec with the latch and the request-withdrawing done(); TLC checks never-cycles / silent-when-off / latch-follows-is_executing exhaustively on three autonomous shapes, and validates on_enable/on_iteration/on_disable histories of the real AutonomousStateMachine (all clauses owned by C13) plus replayed spec behaviours.",
                tech="TLA+ spec MagicSM (auto variant) + TLC exhaustive invariants; TLC batch trace validation; simulated behaviours replayed"),
}
RB_NOTE = ("Trusted: TLC; the HAL simulator (driver station, notifier alarms, FPGA clock) and in-process NetworkTables; the "
           "recorder harness/drivers/robot_driver.py (user callbacks of generated robots, a wrapper around "
           "hal.waitForNotifierAlarm to stop the robot thread at each wait). Driver-station changes are delivered only "
           "while the robot thread is blocked; autonomous and test flags are never set together. Exhaustive runs are "
           "bounded in iterations, mode changes and faults (evidence.tlc_runs).")
CLAIMED.update({
    "C05": dict(cat="model_checking", ref="DESIGN.md 4.4, 5/C05", note=RB_NOTE,
                text="specs/MagicRobot.tla models the robot thread as program counter + remaining callback sites; TLC checks (bounded, exhaustive over mode sequences, faults, writes) no-execute-in-disabled/test, /robot/mode, iteration order structure and the one-iteration-per-period grid; the real startCompetition() loop of generated robots (1-3 components, inherited robot classes, 0-2 autonomous modes, use_teleop_in_autonomous on/off, random mode scripts, overruns) is validated event by event against the spec by TLC: callback order, FPGA time of every callback, /robot/mode as read inside every callback; TLC-simulated behaviours are replayed on the real loop.",
                tech="TLA+ spec MagicRobot + TLC exhaustive invariants; TLC batch trace validation of the real control loop; simulated behaviours replayed"),
    "C06": dict(cat="model_checking", ref="DESIGN.md 4.4, 5/C06", note=RB_NOTE,
                text="TLC checks setup-once-and-first, execute-only-inside-the-enable-bracket, disabled-means-disabled and enable-before-init exhaustively (bounded) on the spec, with a 'no_enable_on_teleop' mutation caught; recorded histories of the real loop (all mode sequences incl. direct switches and endCompetition) are accepted only if every setup/on_enable/on_disable/execute call comes exactly where the spec's todo sequence has it, and every callback sees all components created and injected.",
                tech="TLA+ spec MagicRobot + TLC exhaustive invariants; TLC batch trace validation; simulated behaviours replayed"),
    "C07": dict(cat="fault_enumeration", ref="DESIGN.md 4.4, 5/C07", note=RB_NOTE + " Faults are injected at the callback sites C07 lists (not setup()/createObjects()).",
                text="Fault enumeration through the model: TLC explores every placement of up to 2-3 raising callbacks over all sites/modes/iterations with FMS on/off (invariants: FMS => never crashed; unswallowed => crashed; swallowed only under FMS), the pre-fix deviations are caught; every TLC fault scenario from simulation (incl. all distinct crash scenarios) is replayed on the real loop and random multi-fault histories are validated: thread liveness, exception escaping, and that the remaining callbacks still run in order.",
                tech="TLA+ spec MagicRobot + TLC exhaustive fault placement; TLC fault scenarios replayed on the real loop; TLC batch trace validation"),
    "C10": dict(cat="model_checking", ref="DESIGN.md 4.4, 5/C10", note=RB_NOTE,
                text="The spec carries every component attribute; TLC checks defaults-at-iteration-start and plain-attributes-untouched exhaustively (bounded) with scripted writes from any callback, a 'reset_skipped' mutation is caught; in validated histories every callback logs a snapshot of all marked and unmarked attributes of all components, compared by TLC with the spec state (incl. inherited markers, several markers, faults under FMS).",
                tech="TLA+ spec MagicRobot + TLC exhaustive invariants; TLC batch trace validation with attribute snapshots; simulated behaviours replayed"),
    "C11": dict(cat="model_checking", ref="DESIGN.md 4.4/4.6, 5/C11", note=RB_NOTE + "",
                text="The spec publishes the scripted return value of each getter exactly once per iteration in every mode (any order inside the feedback phase) and leaves the entry alone when the getter raises; TLC checks all-published-every-mode (mutation 'feedback_skipped_in_disabled' caught) and validates, at every wait of recorded histories, the values and topic type strings read back through NetworkTables for robot- and component-level getters (get_ prefix, explicit key=, keys containing get_), for every supported return hint (scalars, list/Sequence/variadic-tuple arrays, struct, struct arrays) and un-hinted getters; a spec-free monitor checks exactly-once per iteration.",
                tech="TLA+ spec MagicRobot + TLC exhaustive invariants; TLC batch trace validation with NetworkTables read-back; simulated behaviours replayed"),
})
CLAIMED.update({
    "C15": dict(cat="model_checking", ref="DESIGN.md 4.3, 5/C15",
                note="Trusted: TLC; in-process NetworkTables as the dashboard; the recorder harness/drivers/sa_driver.py. tm values are multiples of 1/64 s so float arithmetic is exact. One instance per generated class. Exhaustive runs bounded (evidence.tlc_runs).",
                text="specs/StatefulAuto.tla states the timing contract (expiry only after the state ran, successor starts at the predecessor's expiry, initial_call on first call after entry, silent when finished, dashboard values read at on_enable); TLC checks it exhaustively on chain/loop/branch/single shapes over clock steps {1,2,5}, 2-3 periods, in-state next_state/done and dashboard edits; the pre-fix 'no_ran_guard' deviation is caught; executions of generated StatefulAutonomous subclasses (all 16 signatures) over several periods are validated call by call, and simulated spec behaviours are replayed.",
                tech="TLA+ spec StatefulAuto + TLC exhaustive invariants/action properties; TLC batch trace validation; simulated behaviours replayed"),
})
CLAIMED.update({
    "C16": dict(cat="model_checking", ref="DESIGN.md 4.9, 5/C16",
                note="Trusted: TLC; the HAL simulator's notifier alarms and FPGA clock; harness/drivers/nd_driver.py (a wrapper around hal.waitForNotifierAlarm advances simulated time to the armed alarm, read through hal.simulation.getNextNotifierTimeout). Exhaustive runs bounded in number of waits and body durations.",
                text="specs/NotifierDelay.tla (integers, microseconds): TLC checks alarm-on-grid, k-th wait not before t0+kP and exactly then when on time, catch-up after overruns, free releases the notifier and wait-after-free returns at once, exhaustively over body-duration patterns; a 'drift' mutation is caught. Real NotifierDelay objects (periods 1 ms .. 100 ms) are driven through random and TLC-simulated schedules; FPGA time after each wait(), the armed HAL alarm and the notifier count are validated step by step by TLC. In addition Apalache proves an inductive invariant of the model (alarm on the grid, k-th wait not before t0+kP) for unbounded runs.",
                tech="TLA+ spec NotifierDelay + TLC exhaustive invariants; Apalache inductive invariant; TLC batch trace validation; simulated behaviours replayed"),
    "C17": dict(cat="other", ref="DESIGN.md 4.10, 5/C17",
                note="Trusted: TLC; Python decimal (50 digits) for the datasheet power law A*v^B, which TLA+ cannot express - it enters as a table; AnalogInputSim round-trips doubles exactly. NaN is outside the quantifier.",
                text="TLC enumerates all 4096 ADC codes x 3 sensor models, special voltages (negative, zero, tiny, floor, over-range, 1e300, +-inf) and 27 simulated distances per model, and checks on the readings of the real drivers: inside the documented range, non-increasing in the voltage, equal (+-1 micro-cm) to Clamp(Law) with Law from the independent decimal table, sim helper inverse. The case structure is specified in TLA+; the power-law constants are tied to the spec only through the trusted table - hence level 'other'.",
                tech="TLA+ case enumeration by TLC over readings recorded from the real drivers; independent high-precision oracle table for the power law"),
    "C18": dict(cat="model_checking", ref="DESIGN.md 4.10, 5/C18",
                note="Trusted: TLC; exact rational arithmetic in specs/Rational.tla; the pulse-width sonar's counter is a stub getPeriod() (no counter simulator in this wpilib); floating-point results are compared with the exact rationals within 1e-9 relative (the property says 'up to floating-point rounding'); voltages below 10 uV are floored by the pressure driver.",
                text="specs/Units.tla models units as a tree with rational factors; TLC enumerates every ordered triple of 8 units (library units + user-defined chain of depth 4) x 7 values and checks identity, round trip, path independence, homogeneity, additivity and the anchor factors in exact rationals, plus sonar/pressure/calibration formulas over grids; every enumerated case is then run on the real code (convert incl. the laws evaluated on the code, MaxSonar drivers, REV pressure sensor incl. Vcc=0 and non-positive voltages) and compared with TLC's exact expected value.",
                tech="TLA+ exact-rational model + TLC exhaustive enumeration; every TLC case replayed on the real code"),
    "C19": dict(cat="model_checking", ref="DESIGN.md 4.9, 5/C19",
                note="Trusted: TLC; simulated FPGA clock exact on the 1/64 s grid; time.monotonic inside periodic_filter replaced by a fake clock; a stub joystick. Watchdog before its first reset and ButtonDebouncer's initial latest=0 are modelled as implemented.",
                text="specs/Controls.tla: five small machines on one clock; TLC checks flip-iff-edge, debounce spacing, ButtonDebouncer spacing and firing when due, PeriodicFilter low-level spacing, watchdog print spacing and expiry instant exhaustively over sample sequences with clock steps on both sides of every threshold (mutations caught); real Toggle / ButtonDebouncer / PeriodicFilter / SimpleWatchdog objects are driven by random and TLC-simulated sequences and every return value (and watchdog log records) validated by TLC.",
                tech="TLA+ spec Controls + TLC exhaustive action properties; TLC batch trace validation; simulated behaviours replayed"),
    "C20": dict(cat="model_checking", ref="DESIGN.md 4.10, 5/C20",
                note="Trusted: TLC and the CommunityModules Bitwise operators. The 256-entry table is read from the imported module at run time and is the object TLC reasons about; the loop around it is covered by conformance.",
                text="Finite-state, hence exhaustive over all messages of all lengths: TLC steps the table-driven machine (table read from the real module) and the bit-serial reference together on every byte from every reachable checksum (Refines), checks table linearity (=> XOR-linearity by induction; explored directly in thorough), zero-step bijectivity, and on the bit-level syndrome machine that single-bit errors, double-bit errors < 127 apart and bursts <= 7 bits are always detected (period exactly 127). The real crc7() is validated on all one-byte messages, one two-byte message per model transition (32768) and random messages in six buffer kinds, with calls that fail part-way in between (the checksum is a function of the message alone).",
                tech="TLA+ paired-machine refinement checked exhaustively by TLC on the code's own table; TLC trace validation of the real function"),
})
CLAIMED.update({
    "C09": dict(cat="model_checking", ref="DESIGN.md 4.6, 5/C09",
                note="Trusted: TLC; the in-process NetworkTables instance; harness/drivers/tun_driver.py, which reaches topics through its own typed publishers / generic reads at the documented path. Owner names are identifiers; NetworkTables-side writes use the topic's own type. Exhaustive runs bounded in behaviour length.",
                text="specs/Tunable.tla models NetworkTables as a path -> (type, value) map with the documented key construction and type table; TLC checks instance independence (key injectivity), the writeDefault rule and typed topics over every interleaving of NT-side writes (also before set-up), set-up, python writes and reads on several instances (mutations shared_class_entry / default_always_written / the pre-fix raw_getentry caught); generated classes with tunables of all 13 supported type shapes under components/autonomous/robot names are driven by random and TLC-simulated interleavings, and every read (python attribute and independent NetworkTables read: type string and value) is validated by TLC. Type hints wider than the default, tunables declared on / overridden from a base class, and - in a third of the traces - owners that are the components, autonomous modes and robot object of a real MagicRobot bound by robotInit() (in situ).",
                tech="TLA+ spec Tunable + TLC exhaustive invariants; TLC batch trace validation; simulated behaviours replayed"),
})
CLAIMED.update({
    "C08": dict(cat="model_checking", ref="DESIGN.md 4.5, 5/C08",
                note="Trusted: TLC; harness/drivers/inject_driver.py, which builds each enumerated definition as real classes and calls robotInit(); bindings are identified by object identity against the robot's attributes/components. Non-type annotations and a robot attribute named like a component are outside the enumerated universe.",
                text="specs/Inject.tla states the lookup rule (name first, then '<component>_<name>', None counts as absent, falsy values are delivered, isinstance check, presets and private names untouched, constructors see robot attributes and earlier components only, everything before any setup()); TLC enumerates the bounded universe of robot definitions (both declaration orders, 13 attribute options, 5 constructor options, robot attributes missing/instance/subclass/wrong type/0/''/None/list, class-level or createObjects-level, function objects, two instances of one component class preset differently by their constructor, autonomous mode attributes), checks the lookup laws, and every enumerated definition is run through the real robotInit() and compared with TLC's required outcome (bindings by identity, or MagicInjectError with no setup() having run).",
                tech="TLA+ enumeration of robot definitions by TLC with required outcomes; every case built and started with the real MagicRobot"),
    "C12": dict(cat="model_checking", ref="DESIGN.md 4.7, 5/C12",
                note="Trusted: TLC; harness/drivers/smdef_driver.py builds each enumerated definition with type()/exec; dir(StateMachine) is read from the class under test; Python's MRO for the generated hierarchies is checked against the order the spec assumes. When several instantiation errors apply any is accepted; a parameterless state function is adopted as accepted.",
                text="specs/SMDef.tla defines how class bodies merge (base classes first, redefinition replaces in place), when a machine is instantiable, state_names/state_descriptions, legal signatures and forbidden names; TLC enumerates all hierarchies (single, linear, diamond, mix-in) within the bounds, all parameter lists of up to 4 parameters x 4 decorators, every identifier in dir(StateMachine) as a state name, alias / non-StateMachine owner / direct-call cases, each hierarchy also with its base classes instantiated first, checks the merge laws, and every case is built with the real library and compared with TLC's required outcome.",
                tech="TLA+ enumeration of class definitions by TLC with required outcomes; every case built with the real library"),
    "C14": dict(cat="model_checking", ref="DESIGN.md 4.8, 5/C14",
                note="Trusted: TLC; real packages written to a scratch directory under fresh names; DriverStationSim for the FMS flag; chooser options/default read through NetworkTables; wpilib's SendableChooser semantics (unknown selection = no mode; 'selected' outlives choosers). Which duplicate keeps the plain key / which of several defaults is preselected under FMS is left open. start() only when no mode is active.",
                text="Discovery: specs/SelectorDisc.tla gives the required outcome (raise without FMS on duplicates / several defaults / failing import / failing constructor; with FMS every healthy mode offered, each candidate class constructed exactly once, DEFAULT preselected else None) for every package layout within the bounds x FMS; TLC enumerates them, each is written to disk and loaded by the real selector. Lifecycle: specs/Selector.tla (selection by dashboard string else chooser, one active mode, on_enable / on_iteration(t) / on_disable bracket, nothing after on_disable) is model-checked (mutation caught) and random + TLC-simulated start/periodic/disable histories over a real two-mode package are validated by TLC, as are whole autonomous periods through run() on the selector alone (iter_fn disabling the mode or changing the selection mid-run); run() periods inside the robot loop are in the MagicRobot model.",
                tech="TLA+ enumeration of package layouts with required outcomes run on the real selector; TLA+ lifecycle spec + TLC exhaustive checks + TLC batch trace validation"),
})

m = {
    "version": 1,
    "setup_cmd": "true",
    "hooks": {
        "guard": "ROBOTPY_WPILIB_UTILITIES_VERIF",
        "enable": "no source hooks exist: every observation is taken through user callbacks of generated classes, public attributes, NetworkTables subscribers and the HAL simulator; the checks import /repo's working tree directly (VERIF_REPO, default /repo)",
        "baseline_off_cmd": "cd /repo && /venv/bin/python -m pytest -ra -q -p no:cacheprovider --timeout=900 --continue-on-collection-errors",
        "source_commits": [],
        "add_only": True,
    },
    "engines": [
        {"name": "tlc", "path": "/opt/veriftools/tla/tla2tools.jar", "serves_properties": sorted(CLAIMED),
         "kind_free_text": "TLA+ specifications under /verif/specs checked by TLC (exhaustive, simulation, batch trace acceptance); drivers under /verif/harness/drivers record the real code"},
    ],
    "checks": [],
    "not_applicable": [],
    "notes": "./check <id> quick|thorough; exit 0 held, 1 VIOLATION, 2 machinery failure. known_findings.json lists repaired defects (fix: commits in /repo).",
}
for p in props:
    i = p["id"]
    if i in CLAIMED:
        c = CLAIMED[i]
        m["checks"].append({
            "property_id": i,
            "quick_cmd": "./check %s quick" % i,
            "thorough_cmd": "./check %s thorough" % i,
            "evidence_file": "/verif/evidence/%s.json" % i,
            "replay_cmd_template": "./check --replay {path}",
            "engine": "tlc",
            "level_claimed": {"category": c["cat"], "text": c["text"], "design_ref": c["ref"]},
            "level_note": c["note"],
            "technique": c["tech"],
        })
    else:
        m["not_applicable"].append({"property_id": i, "reason": "check not built yet (build in progress); planned in DESIGN.md section 5"})
json.dump(m, open(os.path.join(V, "MANIFEST.json"), "w"), indent=1)
print("claimed:", sorted(CLAIMED))
