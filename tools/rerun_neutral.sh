#!/bin/sh
# tools/rerun_neutral.sh [jobs]  - re-run every behaviour-preserving refactoring under seeded/neutral/ against the quick checks it
# was recorded with; prints one line per refactoring and "ALARMS=<n>" at the end (0 expected).
cd "$(dirname "$0")/.."
jobs=${1:-6}
out=$(mktemp -d /tmp/neutral_XXXXXX)
ls -d seeded/neutral/*/ | while read d; do
  n=$(basename "$d")
  props=$(python3 -c "import json,sys;print(' '.join(json.load(open('$d/meta.json'))['quick_check_exit_codes'].keys()))")
  echo "$n $props"
done > "$out/list"
xargs -P "$jobs" -L 1 sh -c 'n=$0; shift 0; python3 tools/try_neutral.py seeded/neutral/$n/patch.diff "$@" > '"$out"'/$n.json 2>'"$out"'/$n.err' < "$out/list"
python3 - "$out" <<'PY'
import json, glob, os, sys
bad = 0
for f in sorted(glob.glob(sys.argv[1] + "/*.json")):
    try:
        d = json.load(open(f))
    except Exception:
        print(os.path.basename(f), "NO RESULT"); bad += 1; continue
    rcs = {k: v["rc"] for k, v in d.items() if isinstance(v, dict) and "rc" in v}
    ok = d.get("applies", True) and all(v == 0 for v in rcs.values()) and str(d.get("tests", "")).startswith("43 passed")
    bad += 0 if ok else 1
    print(os.path.basename(f)[:-5], d.get("tests"), rcs, "" if ok else "ALARM")
print("ALARMS=%d" % bad)
PY
rm -rf "$out"
