#!/bin/sh
# tools/sweep.sh <first seed> <last seed> [tier]   - every check on the unchanged tree under several seeds; prints one line per run
cd "$(dirname "$0")/.."
tier=${3:-quick}
for sd in $(seq $1 $2); do
  for p in C01 C02 C03 C04 C05 C06 C07 C08 C09 C10 C11 C12 C13 C14 C15 C16 C17 C18 C19 C20; do
    s=$(date +%s)
    VERIF_SEED=$sd ./check $p $tier > /tmp/sweep_$$.log 2>&1; rc=$?
    echo "seed=$sd $p rc=$rc $(( $(date +%s)-s ))s $(grep -c '^VIOLATION' /tmp/sweep_$$.log) $(grep -m1 'MACHINERY\|VIOLATION' /tmp/sweep_$$.log | cut -c1-200)"
  done
done
rm -f /tmp/sweep_$$.log
